(* Model of how the `exact` flag of a unitless real value travels through
   Value::add / sub / mul / div / neg (core/src/num/unit.rs) and the
   `approx.` function (make_approximate).  Values are exact rationals; only
   the flag logic is mirrored:
     add  : `if rhs.is_zero() { return Self { exact: self.exact && rhs.exact, ..self } }`
            (unit.rs, as repaired by fend commit 198ba44), otherwise the
            conjunction;  before that commit the short-cut returned self with
            its own flag (kept below as [vadd_old] / [feval_old]);
     sub  : add (neg rhs);   mul, div : conjunction;   neg : unchanged.
   Model file: executable definitions only. *)
From FendV Require Import Base.Prelude.
From Coq Require Import QArith.
Open Scope N_scope.

Inductive fexpr :=
| FLit (q : Q)                 (* an exact literal *)
| FApprox (e : fexpr)          (* approx. e *)
| FNeg (e : fexpr)
| FAdd (a b : fexpr)
| FSub (a b : fexpr)
| FMul (a b : fexpr)
| FDiv (a b : fexpr).

Definition qzero (q : Q) : bool := Qeq_bool q 0.

(* Value::add today *)
Definition vadd (a b : Q * bool) : Q * bool :=
  if qzero (fst b) then (fst a, snd a && snd b)        (* the zero short-cut, flags combined *)
  else ((fst a + fst b)%Q, snd a && snd b).

(* Value::add before 198ba44: `if rhs.is_zero() { return Ok(self); }` *)
Definition vadd_old (a b : Q * bool) : Q * bool :=
  if qzero (fst b) then a
  else ((fst a + fst b)%Q, snd a && snd b).

Fixpoint feval_with (add : Q * bool -> Q * bool -> Q * bool) (e : fexpr) : res (Q * bool) :=
  match e with
  | FLit q => Ok (q, true)
  | FApprox e => do v <- feval_with add e; Ok (fst v, false)
  | FNeg e => do v <- feval_with add e; Ok ((- fst v)%Q, snd v)
  | FAdd a b => do x <- feval_with add a; do y <- feval_with add b; Ok (add x y)
  | FSub a b => do x <- feval_with add a; do y <- feval_with add b; Ok (add x ((- fst y)%Q, snd y))
  | FMul a b => do x <- feval_with add a; do y <- feval_with add b; Ok ((fst x * fst y)%Q, snd x && snd y)
  | FDiv a b => do x <- feval_with add a; do y <- feval_with add b;
                if qzero (fst y) then Err EDivByZero
                else Ok ((fst x / fst y)%Q, snd x && snd y)
  end.

Definition feval : fexpr -> res (Q * bool) := feval_with vadd.
Definition feval_old : fexpr -> res (Q * bool) := feval_with vadd_old.

(* the expression contains an approximate leaf *)
Fixpoint uses_approx (e : fexpr) : bool :=
  match e with
  | FLit _ => false
  | FApprox _ => true
  | FNeg e => uses_approx e
  | FAdd a b | FSub a b | FMul a b | FDiv a b => uses_approx a || uses_approx b
  end.

(* exact reference value *)
Fixpoint fvalue (e : fexpr) : option Q :=
  match e with
  | FLit q => Some q
  | FApprox e => fvalue e
  | FNeg e => match fvalue e with Some v => Some (- v)%Q | None => None end
  | FAdd a b => match fvalue a, fvalue b with Some x, Some y => Some (x + y)%Q | _, _ => None end
  | FSub a b => match fvalue a, fvalue b with Some x, Some y => Some (x - y)%Q | _, _ => None end
  | FMul a b => match fvalue a, fvalue b with Some x, Some y => Some (x * y)%Q | _, _ => None end
  | FDiv a b => match fvalue a, fvalue b with
                | Some x, Some y => if qzero y then None else Some (x / y)%Q
                | _, _ => None end
  end.

(* classifier of the defect repaired by 198ba44 (kept as documentation and to
   recognise a regression): some addition or subtraction whose right operand
   is an approximate value equal to zero *)
Definition approx_zero (e : fexpr) : bool :=
  match feval_old e with Ok (v, fl) => qzero v && negb fl | _ => false end.

Fixpoint known_C03_add_approx_zero (e : fexpr) : bool :=
  match e with
  | FLit _ => false
  | FApprox e | FNeg e => known_C03_add_approx_zero e
  | FAdd a b | FSub a b =>
    approx_zero b || known_C03_add_approx_zero a || known_C03_add_approx_zero b
  | FMul a b | FDiv a b => known_C03_add_approx_zero a || known_C03_add_approx_zero b
  end.
