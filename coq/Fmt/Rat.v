(* Value-level view of fend's BigRat { sign, num, den } used by the fmt area:
   big integers are Coq [N] (limb arithmetic is another area's business), the
   rational keeps the three fields un-normalised exactly as BigRat does.
   Model file: executable definitions only. *)
From FendV Require Import Base.Prelude.
From Coq Require Import QArith.
Open Scope N_scope.

Record rat := mkrat { rneg : bool; rnum : N; rden : N }.

(* well-formed: non-zero denominator (what every BigRat produced by
   arithmetic satisfies) *)
Definition wfr (x : rat) : bool := negb (rden x =? 0).

(* reduced: num and den coprime *)
Definition reduced (x : rat) : bool := N.gcd (rnum x) (rden x) =? 1.

(* exact value; a zero denominator is read as 1 only to make [qval] total *)
Definition qabs (x : rat) : Q :=
  Z.of_N (rnum x) # (match rden x with N0 => 1%positive | Npos p => p end).
Definition qval (x : rat) : Q := if rneg x then Qopp (qabs x) else qabs x.

Definition rat_of_N (n : N) : rat := mkrat false n 1.

(* BigRat::simplify: nothing to do when den == 1, else divide by the gcd.
   (gcd at value level; a zero gcd -- only for 0/0 -- makes BigUint::div fail
   with DivideByZero, kept as an error.) *)
Definition simplify (x : rat) : res rat :=
  if rden x =? 1 then Ok x
  else
    let g := N.gcd (rnum x) (rden x) in
    if g =? 0 then Err EDivByZero
    else Ok (mkrat (rneg x) (rnum x / g) (rden x / g)).

(* value-level big-integer helpers shared by the fmt models *)
Definition pow_N (b : N) (k : N) : N := b ^ k.

(* Coq Q from a rat, reduced, for output *)
Definition q_of_rat (x : rat) : Q := Qred (qval x).
