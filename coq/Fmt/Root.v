(* Value-level model of fend's integer and rational roots and rational powers
   (property C03):
     core/src/num/biguint.rs  BigUint::pow (217-228), BigUint::root_n (230-263),
                              bits (38-52)
     core/src/num/bigrat.rs   BigRat::pow (923-960), iter_root_n (963-982),
                              BigRat::root_n (996-1042), BigRat::div (447-456)
   Big integers are Coq [N]; a BigRat is the [rat] record of Fmt/Rat.v.  The
   rational intermediate values of iter_root_n / the results of root_n and pow
   are Coq [Q], normalised with [Qred] after every step (values only; fend
   keeps them small with an lcm in add_internal).
   Model file: executable definitions only, proofs are in RootProofs.v. *)
From FendV Require Import Base.Prelude Fmt.Rat.
From Coq Require Import QArith.
Open Scope N_scope.

(* one u64 limb: [b.value_len() > 1] at value level is [W64 <= b] *)
Definition W64 : N := 2 ^ 64.

(* BigUint::bits for a non-zero value (Small(0).bits() would panic in ilog2,
   but root_n returns before calling it on 0). *)
Definition bits (x : N) : N := N.size x.

(* BigUint::pow (biguint.rs 217-228).  pow_internal is square-and-multiply,
   at value level [a ^ b]. *)
Definition upow (a b : N) : res N :=
  if (a =? 0) && (b =? 0) then Err EZeroPowZero          (* 218 *)
  else if b =? 0 then Ok 1                                (* 221 *)
  else if W64 <=? b then Err EExpTooLarge                 (* 224 *)
  else Ok (a ^ b).                                        (* 227 *)

(* BigUint::sub (biguint.rs 461-): [unreachable!] (or u64 underflow for two
   Small values) when the result would be negative. *)
Definition usub (site : N) (a b : N) : res N :=
  if a <? b then Panic site else Ok (a - b).

(* the loop of BigUint::root_n (biguint.rs 247-261) *)
Fixpoint iroot_loop (fuel : nat) (x n low high : N) : res (N * bool) :=
  match fuel with
  | O => Err EOutOfFuel
  | S f =>
    let guess := (low + high) / 2 in                      (* 249-250 *)
    do r <- upow guess n;                                 (* 252 *)
    match r ?= x with
    | Eq => Ok (guess, true)                              (* 254 *)
    | Gt =>                                               (* 255: high := guess *)
      do d <- usub 2 guess low;                           (* 258 *)
      if d <=? 1 then Ok (low, false)                     (* 259 *)
      else iroot_loop f x n low guess
    | Lt =>                                               (* 256: low := guess *)
      do d <- usub 2 high guess;                          (* 258 *)
      if d <=? 1 then Ok (guess, false)                   (* 259 *)
      else iroot_loop f x n guess high
    end
  end.

(* BigUint::root_n (biguint.rs 231-263): exact n-th root if there is one,
   otherwise the floor.  Panic 1 = u64 division by zero at line 244
   ([self.bits() / n.get(0)] with n = 0, reached when x >= 2). *)
Definition iroot (x n : N) : res (N * bool) :=
  if (x =? 0) || (x =? 1) || (n =? 1) then Ok (x, true)   (* 232 *)
  else if W64 <=? n then Err EOutOfRange                  (* 235 *)
  else if n =? 0 then Panic 1                             (* 244 *)
  else
    let max_bits := bits x / n + 1 in                     (* 244 *)
    iroot_loop (N.to_nat (max_bits + 3)) x n
               1 (2 ^ (max_bits + 1)).                    (* 245-246 *)

(* ------------------------------------------------------------------ *)
(* rationals *)

Definition qpow (q : Q) (n : N) : Q := Qpower q (Z.of_N n).
Definition q_of_N (n : N) : Q := inject_Z (Z.of_N n).

(* (low + high) / 2, kept reduced *)
Definition qmid (lo hi : Q) : Q := Qred ((lo + hi) / 2).

(* the 50 iterations of iter_root_n (bigrat.rs 970-981).  [guess.pow(n)] is
   BigRat::pow with a positive guess and a non-zero single-limb integer n
   (iter_root_n is only called after BigUint::root_n accepted n), so it has
   no error case and its value is guess^n. *)
Fixpoint iter_root_go (k : nat) (lo hi val : Q) (n : N) : Q :=
  match k with
  | O => qmid lo hi                                       (* 981 *)
  | S k' =>
    let guess := qmid lo hi in                            (* 971-974 *)
    match Qcompare (qpow guess n) val with
    | Lt => iter_root_go k' guess hi val n                (* 976 *)
    | _ => iter_root_go k' lo guess val n                 (* 978 *)
    end
  end.

(* BigRat::iter_root_n(low, val, n) *)
Definition iter_root (low val n : N) : Q :=
  iter_root_go 50 (q_of_N low) (q_of_N low + 1) (q_of_N val) n.

(* one component of BigRat::root_n (bigrat.rs 1021-1040) *)
Definition root_component (c n : N) (r : N * bool) : Q :=
  if snd r then q_of_N (fst r) else iter_root (fst r) c n.

(* BigRat::root_n (bigrat.rs 996-1042).  The value of the result as a
   reduced [Q] and the exactness flag. *)
Definition rat_root (x n : rat) : res (Q * bool) :=
  if negb (rnum x =? 0) && rneg x then Err ENegative      (* 997 *)
  else
    do n' <- simplify n;                                  (* 1000 *)
    if negb (rden n' =? 1) || rneg n' then Err ENotInteger (* 1001 *)
    else
      let k := rnum n' in
      if rnum x =? 0 then Ok (q_of_rat x, true)           (* 1005 *)
      else
        do nr <- iroot (rnum x) k;                        (* 1008 *)
        do dr <- iroot (rden x) k;                        (* 1009 *)
        if snd nr && snd dr then                          (* 1010 *)
          Ok (q_of_rat (mkrat false (fst nr) (fst dr)), true)
        else
          let num_rat := root_component (rnum x) k nr in  (* 1021 *)
          let den_rat := root_component (rden x) k dr in  (* 1031 *)
          (* 1041: BigRat::div, DivideByZero when den_rat.num == 0 *)
          if Qeq_bool den_rat 0 then Err EDivByZero
          else Ok (Qred (num_rat / den_rat), false).

(* BigRat::pow after both simplifications, the negative-base check and the
   sign flip of a negative exponent (bigrat.rs 938-959); [en/ed] is the
   simplified |exponent|. *)
Definition rat_pow_pos (x : rat) (en ed : N) : res (Q * bool) :=
  let result_neg := negb (negb (rneg x) || N.even en) in  (* 938 *)
  do pn <- upow (rnum x) en;                              (* 945 *)
  do pd <- upow (rden x) en;                              (* 946 *)
  let pow_res := mkrat result_neg pn pd in
  if ed =? 1 then Ok (q_of_rat pow_res, true)             (* 948 *)
  else rat_root pow_res (mkrat false ed 1).               (* 951 *)

(* BigRat::pow (bigrat.rs 923-960).  The recursive call for a negative
   exponent repeats the two (idempotent) simplifications and the negative-base
   check (same outcome) and then takes the non-negative path, so it is written
   as one call of [rat_pow_pos]. *)
Definition rat_pow (x e : rat) : res (Q * bool) :=
  do x' <- simplify x;                                    (* 924 *)
  do e' <- simplify e;                                    (* 925 *)
  if negb (rnum x' =? 0) && rneg x' && negb (rden e' =? 1)
  then Err ENegative                                      (* 926 *)
  else if rneg e' then                                    (* 929 *)
    do r <- rat_pow_pos x' (rnum e') (rden e');           (* 932 *)
    (* 934: 1 / inverse_res, DivideByZero when its numerator is 0 *)
    if Qeq_bool (fst r) 0 then Err EDivByZero
    else Ok (Qred (/ fst r), snd r)
  else rat_pow_pos x' (rnum e') (rden e').
