(* Switching the decimal-separator style only swaps '.' and ',' in what
   Value::format prints: every other character of a rendering is neither. *)
From FendV Require Import Base.Prelude Fmt.Rat Fmt.Format.
From Coq Require Import Lia ZifyBool.
Open Scope N_scope.

Arguments N.add : simpl never.
Arguments N.sub : simpl never.
Arguments N.mul : simpl never.
Arguments N.div : simpl never.
Arguments N.modulo : simpl never.
Arguments N.eqb : simpl never.
Arguments N.ltb : simpl never.
Arguments N.leb : simpl never.
Arguments N.pow : simpl never.
Arguments N.div_eucl : simpl never.

Definition swap_dc (c : N) : N := if c =? 46 then 44 else if c =? 44 then 46 else c.

(* no dot, no comma *)
Definition nodc (s : list N) : Prop := Forall (fun c => c <> 44 /\ c <> 46) s.

Lemma swap_nodc : forall s, nodc s -> map swap_dc s = s.
Proof.
  intros s H. induction H as [|c s [H1 H2] _ IH]; [reflexivity|].
  cbn [map]. rewrite IH. f_equal. unfold swap_dc.
  replace (c =? 46) with false by lia. replace (c =? 44) with false by lia. reflexivity.
Qed.

Lemma nodc_app : forall a b, nodc a -> nodc b -> nodc (a ++ b).
Proof. intros. apply Forall_app. auto. Qed.

Lemma nodc_zeros : forall k, nodc (zeros k).
Proof. intros k. unfold zeros. apply Forall_forall. intros x Hx. apply repeat_spec in Hx. lia. Qed.

Lemma swap_point : swap_dc (decimal_char SepDot) = decimal_char SepComma.
Proof. reflexivity. Qed.

(* ------------------------------------------------------------------ *)
(* the integer printer never emits '.' or ',' *)

Lemma dec_digits_nodc : forall fuel n acc, nodc acc -> nodc (dec_digits_fuel fuel n acc).
Proof.
  induction fuel as [|fuel IH]; intros n acc H; cbn [dec_digits_fuel]; [assumption|].
  destruct (n <? 10) eqn:E.
  - constructor; [cbv beta; lia|assumption].
  - apply IH. constructor; [|assumption].
    assert (Hm : n mod 10 < 10) by (apply N.mod_lt; lia). cbv beta. remember (n mod 10) as m. clear - Hm. lia.
Qed.

Lemma dec_display_nodc : forall n, nodc (dec_display n).
Proof. intros. unfold dec_display. apply dec_digits_nodc. constructor. Qed.

Lemma prefix_nodc : forall k, nodc (prefix_text k).
Proof.
  intros [| | |b|b]; cbn [prefix_text]; try (repeat constructor; cbv beta; lia).
  apply nodc_app; [apply dec_display_nodc|repeat constructor; cbv beta; lia].
Qed.

Lemma push_digit_nodc : forall d st st', nodc (ib_out st) -> push_digit d st = Ok st' -> nodc (ib_out st').
Proof.
  intros d st st' H Hp. unfold push_digit in Hp. unfold digit_as_char in Hp.
  destruct (d <? 10) eqn:E1.
  - destruct (48 + d =? 48); injection Hp as <-; cbn [ib_out]; [assumption|].
    constructor; [cbv beta; lia|]. apply nodc_app; [apply nodc_zeros|assumption].
  - destruct (d <? 36) eqn:E2; [|discriminate].
    destruct (87 + d =? 48); injection Hp as <-; cbn [ib_out]; [assumption|].
    constructor; [cbv beta; lia|]. apply nodc_app; [apply nodc_zeros|assumption].
Qed.

Lemma group_digits_nodc : forall r b g st st', nodc (ib_out st) ->
  group_digits r b g st = Ok st' -> nodc (ib_out st').
Proof.
  induction r as [|r IH]; intros b g st st' H Hg; cbn [group_digits] in Hg.
  - injection Hg as <-. assumption.
  - destruct (N.div_eucl g b) as [g' d].
    destruct (push_digit d st) as [st1| |] eqn:Ep; cbn [bind] in Hg; try discriminate.
    eapply IH; [|eassumption]. eapply push_digit_nodc; eassumption.
Qed.

Lemma int_loop_nodc : forall fuel b dv r num st st', nodc (ib_out st) ->
  int_loop fuel b dv r num st = Ok st' -> nodc (ib_out st').
Proof.
  induction fuel as [|fuel IH]; intros b dv r num st st' H Hl; cbn [int_loop] in Hl.
  - destruct (num =? 0); [injection Hl as <-; assumption|discriminate].
  - destruct (num =? 0); [injection Hl as <-; assumption|].
    destruct (N.div_eucl num dv) as [q rr].
    destruct (group_digits r b rr st) as [st1| |] eqn:Eg; cbn [bind] in Hl; try discriminate.
    eapply IH; [|eassumption]. eapply group_digits_nodc; eassumption.
Qed.

Lemma sf_mask_nodc : forall s i sf, nodc s -> nodc (sf_mask i sf s).
Proof.
  induction s as [|c s IH]; intros i sf H; cbn [sf_mask]; [constructor|].
  inversion H as [|? ? Hc Hs]; subst. constructor; [cbv beta in *; destruct (sf <=? i); lia|apply IH; assumption].
Qed.

Lemma format_biguint_nodc : forall base wp sfl n f e,
  format_biguint base wp sfl n = Ok (f, e) -> nodc (fbu_text f).
Proof.
  intros base wp sfl n f e H. unfold format_biguint in H.
  assert (Hpre : forall ty, nodc (match ty with Some k => prefix_text k | None => [] end)).
  { intros [k|]; [apply prefix_nodc|constructor]. }
  destruct (n =? 0).
  - injection H as <- _. unfold fbu_text. cbn [fbu_base fbu_ty]. apply nodc_app; [apply Hpre|repeat constructor; cbv beta; lia].
  - destruct ((n <? U64) && (base_val base =? 10) && match sfl with None => true | Some _ => false end).
    + injection H as <- _. unfold fbu_text. cbn [fbu_base fbu_ty]. apply nodc_app; [apply Hpre|apply dec_display_nodc].
    + destruct ((base_val base <? 2) || (36 <? base_val base)); [discriminate|].
      destruct (group_params (base_val base)) as [d r].
      destruct (int_loop _ _ _ _ _ _) as [st| |] eqn:El; cbn [bind] in H; try discriminate.
      apply int_loop_nodc in El; [|constructor].
      destruct (N.of_nat (length (ib_out st)) <? ib_lz st); [discriminate|].
      injection H as <- _. unfold fbu_text. cbn [fbu_base fbu_ty]. apply nodc_app; [apply Hpre|].
      destruct sfl; [apply sf_mask_nodc|]; assumption.
Qed.

Lemma digit_text_nodc : forall base d t, digit_text base d = Ok t -> nodc t.
Proof.
  intros base d t H. unfold digit_text in H.
  destruct (format_biguint base false None d) as [[f e]| |] eqn:E; cbn [bind] in H; try discriminate.
  injection H as <-. eapply format_biguint_nodc; eassumption.
Qed.

(* ------------------------------------------------------------------ *)
(* results up to the swap *)

Definition swap3 (r : res (bool * list N * bool)) : res (bool * list N * bool) :=
  match r with
  | Ok (s, t, e) => Ok (s, map swap_dc t, e)
  | Err e => Err e
  | Panic k => Panic k
  end.

Definition swap2 (r : res (list N * bool)) : res (list N * bool) :=
  match r with
  | Ok (t, e) => Ok (map swap_dc t, e)
  | Err e => Err e
  | Panic k => Panic k
  end.

Lemma nonrec_swap : forall fuel md base den neg ip ip_text ign cur i tz asign td_d td_c,
  nodc ip_text -> td_c = map swap_dc td_d ->
  nonrec_loop fuel md base den SepComma neg ip ip_text ign cur i tz asign td_c =
  swap3 (nonrec_loop fuel md base den SepDot neg ip ip_text ign cur i tz asign td_d).
Proof.
  induction fuel as [|fuel IH]; intros md base den neg ip ip_text ign cur i tz asign td_d td_c Hip Htd;
    cbn [nonrec_loop]; [reflexivity|].
  destruct (next_digit md (base_val base) den i cur) as [next_n digit|ru|e]; [| |reflexivity].
  - destruct (digit =? 0); [apply IH; assumption|].
    destruct asign as [s|].
    + destruct (digit_text base digit) as [dt| |] eqn:Ed; cbn [bind swap3]; try reflexivity.
      apply IH; [assumption|]. subst td_c. rewrite !map_app.
      rewrite (swap_nodc (zeros tz)) by apply nodc_zeros.
      rewrite (swap_nodc dt) by (eapply digit_text_nodc; eassumption). reflexivity.
    + unfold print_integer_part.
      destruct (digit_text base digit) as [dt| |] eqn:Ed; cbn [bind swap3]; try reflexivity.
      apply IH; [assumption|]. subst td_c. rewrite !map_app.
      rewrite (swap_nodc (zeros tz)) by apply nodc_zeros.
      rewrite (swap_nodc dt) by (eapply digit_text_nodc; eassumption).
      rewrite (swap_nodc ip_text) by assumption. cbn [map]. rewrite swap_point. reflexivity.
  - destruct asign as [s|]; cbn [swap3].
    + subst td_c. reflexivity.
    + unfold print_integer_part. cbn [swap3]. subst td_c. rewrite map_app, (swap_nodc ip_text) by assumption. reflexivity.
Qed.

(* Brent's algorithm does not see the separator; its digits are clean *)
Lemma phase2_nodc : forall k base den hare out h' out', nodc out ->
  brent_phase2 k base den hare out = Ok (h', out') -> nodc out'.
Proof.
  induction k as [|k IH]; intros base den hare out h' out' Ho H; cbn [brent_phase2] in H.
  - injection H as _ <-. assumption.
  - destruct (nd_all (base_val base) den hare) as [nh| |]; cbn [bind] in H; try discriminate.
    destruct (digit_text base (snd nh)) as [dt| |] eqn:Ed; cbn [bind] in H; try discriminate.
    eapply IH; [|eassumption]. apply nodc_app; [assumption|eapply digit_text_nodc; eassumption].
Qed.

Lemma phase3_nodc : forall fuel base den t h mu out mu' out', nodc out ->
  brent_phase3 fuel base den t h mu out = Ok (mu', out') -> nodc out'.
Proof.
  induction fuel as [|fuel IH]; intros base den t h mu out mu' out' Ho H; cbn [brent_phase3] in H.
  - destruct (t =? h); [injection H as _ <-; assumption|discriminate].
  - destruct (t =? h); [injection H as _ <-; assumption|].
    destruct (nd_all (base_val base) den t) as [nt| |]; cbn [bind] in H; try discriminate.
    destruct (nd_all (base_val base) den h) as [nh| |]; cbn [bind] in H; try discriminate.
    destruct (digit_text base (snd nh)) as [dt| |] eqn:Ed; cbn [bind] in H; try discriminate.
    eapply IH; [|eassumption]. apply nodc_app; [assumption|eapply digit_text_nodc; eassumption].
Qed.

Lemma brents_nodc : forall fuel base den x0 lam mu out,
  brents_algorithm fuel base den x0 = Ok (lam, mu, out) -> nodc out.
Proof.
  intros fuel base den x0 lam mu out H. unfold brents_algorithm in H.
  destruct (nd_all (base_val base) den x0) as [h0| |]; cbn [bind] in H; try discriminate.
  destruct (brent_phase1 _ _ _ _ _ _ _) as [l1| |]; cbn [bind] in H; try discriminate.
  destruct (brent_phase2 _ _ _ _ _) as [[h2 o2]| |] eqn:E2; cbn [bind] in H; try discriminate.
  destruct (brent_phase3 _ _ _ _ _ _ _) as [[m3 o3]| |] eqn:E3; cbn [bind] in H; try discriminate.
  injection H as _ _ <-. cbn [fst snd] in *.
  eapply phase3_nodc; [|eassumption]. eapply phase2_nodc; [|eassumption]. constructor.
Qed.

Lemma nodc_firstn : forall n s, nodc s -> nodc (firstn n s).
Proof.
  induction n as [|n IH]; intros s H; [constructor|]. destruct s as [|c s]; [constructor|].
  inversion H; subst. cbn [firstn]. constructor; [assumption|apply IH; assumption].
Qed.

Lemma nodc_skipn : forall n s, nodc s -> nodc (skipn n s).
Proof.
  induction n as [|n IH]; intros s H; [assumption|]. destruct s as [|c s]; [constructor|].
  inversion H; subst. cbn [skipn]. apply IH. assumption.
Qed.

Lemma ftd_swap : forall fuel base num den md terminating neg ip ip_text, nodc ip_text ->
  format_trailing_digits fuel base num den md terminating SepComma neg ip ip_text =
  swap3 (format_trailing_digits fuel base num den md terminating SepDot neg ip ip_text).
Proof.
  intros fuel base num den md terminating neg ip ip_text Hip. unfold format_trailing_digits.
  destruct (match md with AllDigits => terminating | _ => Ok true end) as [skip| |]; cbn [bind swap3]; try reflexivity.
  destruct skip.
  - apply nonrec_swap; [assumption|reflexivity].
  - destruct (brents_algorithm fuel base den num) as [[[lam mu] out]| |] eqn:Eb; cbn [bind swap3]; try reflexivity.
    pose proof (brents_nodc _ _ _ _ _ _ _ Eb) as Ho.
    destruct (length out <? N.to_nat (mu + lam))%nat; [reflexivity|].
    unfold print_integer_part. cbn [swap3]. f_equal. f_equal. f_equal.
    rewrite !map_app. cbn [map]. rewrite (swap_nodc ip_text) by assumption.
    rewrite (swap_nodc (firstn _ (firstn _ out))) by (apply nodc_firstn, nodc_firstn; assumption).
    rewrite (swap_nodc (skipn _ (firstn _ out))) by (apply nodc_skipn, nodc_firstn; assumption).
    reflexivity.
Qed.

Lemma sign_nodc : forall s, nodc (sign_text s).
Proof. intros []; repeat constructor; cbv beta; lia. Qed.

Lemma format_as_decimal_swap : forall fuel x st base neg terminating,
  format_as_decimal fuel x st base neg terminating SepComma =
  swap2 (format_as_decimal fuel x st base neg terminating SepDot).
Proof.
  intros fuel x st base neg terminating. unfold format_as_decimal.
  destruct (rden x =? 0); [reflexivity|].
  destruct (format_biguint base true _ (rnum x / rden x)) as [[fi ei]| |] eqn:Ei; cbn [bind swap2]; try reflexivity.
  pose proof (format_biguint_nodc _ _ _ _ _ _ Ei) as Hip. cbn [fst snd].
  match goal with |- context [do md <- ?M; _] => destruct M as [md| |] end; cbn [bind swap2]; try reflexivity.
  rewrite ftd_swap by assumption.
  destruct (format_trailing_digits fuel base _ (rden x) md terminating SepDot neg _ _) as [[[sg tx] ex]| |];
    cbn [bind swap3 swap2]; try reflexivity.
  rewrite map_app, (swap_nodc (sign_text sg)) by apply sign_nodc. reflexivity.
Qed.

Lemma format_as_integer_nodc : forall n base neg sfl s e,
  format_as_integer n base neg sfl = Ok (s, e) -> nodc s.
Proof.
  intros n base neg sfl s e H. unfold format_as_integer in H.
  destruct (format_biguint base true sfl n) as [[f ef]| |] eqn:E; cbn [bind] in H; try discriminate.
  injection H as <- _. apply nodc_app; [apply sign_nodc|eapply format_biguint_nodc; eassumption].
Qed.

Lemma format_as_fraction_nodc : forall x base neg mixed s e,
  format_as_fraction x base neg mixed = Ok (s, e) -> nodc s.
Proof.
  intros x base neg mixed s e H. unfold format_as_fraction in H.
  destruct (format_biguint base true None (rden x)) as [[fd ed]| |] eqn:Ed; cbn [bind] in H; try discriminate.
  pose proof (format_biguint_nodc _ _ _ _ _ _ Ed) as Hd.
  assert (Hgen : forall pref num pe,
            (do fnum <- format_biguint base true None num;
             Ok (sign_text neg ++ (match pref with Some p => fbu_text p ++ [32] | None => [] end) ++
                 fbu_text (fst fnum) ++ [47] ++ fbu_text (fst (fd, ed)), snd (fd, ed) && pe && snd fnum)) = Ok (s, e) ->
            (match pref with Some p => nodc (fbu_text p) | None => True end) -> nodc s).
  { intros pref num pe Hq Hp.
    destruct (format_biguint base true None num) as [[fn en]| |] eqn:En; cbn [bind] in Hq; try discriminate.
    injection Hq as <- _. cbn [fst].
    apply nodc_app; [apply sign_nodc|]. apply nodc_app.
    - destruct pref; [apply nodc_app; [assumption|repeat constructor; cbv beta; lia]|constructor].
    - apply nodc_app; [eapply format_biguint_nodc; eassumption|].
      constructor; [cbv beta; lia|assumption]. }
  destruct mixed.
  - destruct (rden x =? 0); [discriminate|].
    destruct (rnum x / rden x =? 0); cbn [bind] in H.
    + eapply (Hgen None); [exact H|exact I].
    + destruct (format_biguint base true None (rnum x / rden x)) as [[fp ep]| |] eqn:Ep; cbn [bind] in H; try discriminate.
      eapply (Hgen (Some fp)); [exact H|]. eapply format_biguint_nodc; eassumption.
  - cbn [bind] in H. eapply (Hgen None); [exact H|exact I].
Qed.

Lemma bigrat_format_swap : forall fuel st base x,
  bigrat_format fuel st base SepComma x = swap2 (bigrat_format fuel st base SepDot x).
Proof.
  intros fuel st base x. unfold bigrat_format.
  destruct (simplify x) as [y| |]; cbn [bind swap2]; try reflexivity.
  destruct (rden y =? 1).
  - destruct (format_as_integer _ _ _ _) as [[s e]| |] eqn:E; cbn [swap2]; try reflexivity.
    rewrite (swap_nodc s) by (eapply format_as_integer_nodc; eassumption). reflexivity.
  - match goal with |- context [do fraction <- ?M; _] => destruct M as [fr| |] end; cbn [bind swap2]; try reflexivity.
    destruct fr.
    + destruct (format_as_fraction _ _ _ _) as [[s e]| |] eqn:E; cbn [swap2]; try reflexivity.
      rewrite (swap_nodc s) by (eapply format_as_fraction_nodc; eassumption). reflexivity.
    + apply format_as_decimal_swap.
Qed.

(* Value::format: the comma-style rendering is the dot-style rendering with
   '.' and ',' exchanged; same exact flag, same errors *)
Theorem sep_swap_lemma : forall fuel vexact st base x,
  fmt_value fuel vexact st base SepComma x = swap2 (fmt_value fuel vexact st base SepDot x).
Proof.
  intros fuel vexact st base x. unfold fmt_value. rewrite bigrat_format_swap.
  destruct (bigrat_format fuel _ base SepDot x) as [[s e]| |]; reflexivity.
Qed.
