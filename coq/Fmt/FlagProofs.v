(* Proofs about the exact-flag model Fmt/Flag.v.  With Value::add as repaired
   by fend commit 198ba44 the flag of a result is exactly "no approximate
   operand occurs" (full strength).  The model of the code before that commit
   is kept: there the statement is refuted (x + approximate-zero kept x's
   flag) and holds outside that class. *)
From FendV Require Import Base.Prelude Fmt.Flag.
From Coq Require Import QArith Lia.
Open Scope N_scope.

Lemma qzero_opp : forall q, qzero (- q) = qzero q.
Proof.
  intros [n d]. unfold qzero, Qeq_bool, Qopp. cbn [Qnum Qden]. 
  rewrite !Z.mul_1_r. cbn. destruct n; reflexivity.
Qed.

Lemma qzero_iff : forall q, qzero q = true <-> (q == 0)%Q.
Proof. intros. unfold qzero. apply Qeq_bool_iff. Qed.

Theorem flag_monotone_old_refuted_lemma :
  exists e v, uses_approx e = true /\ feval_old e = Ok (v, true).
Proof. exists (FAdd (FLit 1) (FApprox (FLit 0))), 1%Q. split; reflexivity. Qed.

Theorem flag_monotone_old_except_known_lemma : forall e v fl,
  known_C03_add_approx_zero e = false -> uses_approx e = true ->
  feval_old e = Ok (v, fl) -> fl = false.
Proof.
  unfold feval_old.
  induction e as [q|e IH|e IH|a IHa b IHb|a IHa b IHb|a IHa b IHb|a IHa b IHb];
    intros v fl Hk Hu H; cbn [feval_with uses_approx known_C03_add_approx_zero] in *.
  - discriminate.
  - destruct (feval_with vadd_old e) as [[v0 f0]| |]; cbn [bind] in H; try discriminate. injection H as _ <-. reflexivity.
  - destruct (feval_with vadd_old e) as [[v0 f0]| |] eqn:E; cbn [bind] in H; try discriminate. injection H as _ <-.
    cbn [snd]. eapply IH; eauto.
  - (* add *)
    apply Bool.orb_false_iff in Hk as [Hk Hkb]. apply Bool.orb_false_iff in Hk as [Haz Hka].
    destruct (feval_with vadd_old a) as [[va fa]| |] eqn:Ea; cbn [bind] in H; try discriminate.
    destruct (feval_with vadd_old b) as [[vb fb]| |] eqn:Eb; cbn [bind] in H; try discriminate.
    unfold approx_zero, feval_old in Haz. rewrite Eb in Haz.
    unfold vadd_old in H. cbn [fst snd] in H.
    destruct (uses_approx a) eqn:Ua.
    + assert (fa = false) by (eapply IHa; eauto). subst fa.
      destruct (qzero vb); injection H as _ <-; reflexivity.
    + cbn [orb] in Hu. assert (fb = false) by (eapply IHb; eauto). subst fb.
      destruct (qzero vb); [cbn in Haz; discriminate|]. injection H as _ <-. apply Bool.andb_false_r.
  - (* sub *)
    apply Bool.orb_false_iff in Hk as [Hk Hkb]. apply Bool.orb_false_iff in Hk as [Haz Hka].
    destruct (feval_with vadd_old a) as [[va fa]| |] eqn:Ea; cbn [bind] in H; try discriminate.
    destruct (feval_with vadd_old b) as [[vb fb]| |] eqn:Eb; cbn [bind] in H; try discriminate.
    unfold approx_zero, feval_old in Haz. rewrite Eb in Haz.
    unfold vadd_old in H. cbn [fst snd] in H. rewrite qzero_opp in H.
    destruct (uses_approx a) eqn:Ua.
    + assert (fa = false) by (eapply IHa; eauto). subst fa.
      destruct (qzero vb); injection H as _ <-; reflexivity.
    + cbn [orb] in Hu. assert (fb = false) by (eapply IHb; eauto). subst fb.
      destruct (qzero vb); [cbn in Haz; discriminate|]. injection H as _ <-. apply Bool.andb_false_r.
  - (* mul *)
    apply Bool.orb_false_iff in Hk as [Hka Hkb].
    destruct (feval_with vadd_old a) as [[va fa]| |] eqn:Ea; cbn [bind] in H; try discriminate.
    destruct (feval_with vadd_old b) as [[vb fb]| |] eqn:Eb; cbn [bind] in H; try discriminate.
    injection H as _ <-. cbn [snd].
    destruct (uses_approx a) eqn:Ua.
    + assert (fa = false) by (eapply IHa; eauto). subst fa. reflexivity.
    + cbn [orb] in Hu. assert (fb = false) by (eapply IHb; eauto). subst fb. apply Bool.andb_false_r.
  - (* div *)
    apply Bool.orb_false_iff in Hk as [Hka Hkb].
    destruct (feval_with vadd_old a) as [[va fa]| |] eqn:Ea; cbn [bind] in H; try discriminate.
    destruct (feval_with vadd_old b) as [[vb fb]| |] eqn:Eb; cbn [bind] in H; try discriminate.
    cbn [fst snd] in H. destruct (qzero vb); try discriminate.
    injection H as _ <-.
    destruct (uses_approx a) eqn:Ua.
    + assert (fa = false) by (eapply IHa; eauto). subst fa. reflexivity.
    + cbn [orb] in Hu. assert (fb = false) by (eapply IHb; eauto). subst fb. apply Bool.andb_false_r.
Qed.

(* ------------------------------------------------------------------ *)
(* the repaired code: the flag is exactly "no approximate operand" *)

Theorem flag_exactly_lemma : forall e v fl,
  feval e = Ok (v, fl) -> fl = negb (uses_approx e).
Proof.
  unfold feval.
  induction e as [q|e IH|e IH|a IHa b IHb|a IHa b IHb|a IHa b IHb|a IHa b IHb];
    intros v fl H; cbn [feval_with uses_approx] in *.
  - injection H as _ <-. reflexivity.
  - destruct (feval_with vadd e) as [[v0 f0]| |]; cbn [bind] in H; try discriminate. injection H as _ <-. reflexivity.
  - destruct (feval_with vadd e) as [[v0 f0]| |] eqn:E; cbn [bind] in H; try discriminate. injection H as _ <-.
    cbn [snd]. eapply IH; eauto.
  - destruct (feval_with vadd a) as [[va fa]| |] eqn:Ea; cbn [bind] in H; try discriminate.
    destruct (feval_with vadd b) as [[vb fb]| |] eqn:Eb; cbn [bind] in H; try discriminate.
    rewrite (IHa _ _ eq_refl), (IHb _ _ eq_refl) in H. unfold vadd in H. cbn [fst snd] in H.
    rewrite Bool.negb_orb. destruct (qzero vb); injection H as _ <-; reflexivity.
  - destruct (feval_with vadd a) as [[va fa]| |] eqn:Ea; cbn [bind] in H; try discriminate.
    destruct (feval_with vadd b) as [[vb fb]| |] eqn:Eb; cbn [bind] in H; try discriminate.
    rewrite (IHa _ _ eq_refl), (IHb _ _ eq_refl) in H. unfold vadd in H. cbn [fst snd] in H.
    rewrite Bool.negb_orb. destruct (qzero (- vb)); injection H as _ <-; reflexivity.
  - destruct (feval_with vadd a) as [[va fa]| |] eqn:Ea; cbn [bind] in H; try discriminate.
    destruct (feval_with vadd b) as [[vb fb]| |] eqn:Eb; cbn [bind] in H; try discriminate.
    rewrite (IHa _ _ eq_refl), (IHb _ _ eq_refl) in H. injection H as _ <-. cbn [snd].
    rewrite Bool.negb_orb. reflexivity.
  - destruct (feval_with vadd a) as [[va fa]| |] eqn:Ea; cbn [bind] in H; try discriminate.
    destruct (feval_with vadd b) as [[vb fb]| |] eqn:Eb; cbn [bind] in H; try discriminate.
    rewrite (IHa _ _ eq_refl), (IHb _ _ eq_refl) in H. cbn [fst snd] in H.
    destruct (qzero vb); try discriminate. injection H as _ <-. rewrite Bool.negb_orb. reflexivity.
Qed.

Theorem flag_monotone_lemma : forall e v fl,
  uses_approx e = true -> feval e = Ok (v, fl) -> fl = false.
Proof. intros e v fl Hu H. rewrite (flag_exactly_lemma e v fl H), Hu. reflexivity. Qed.

Theorem flag_exact_when_no_approx_lemma : forall e v fl,
  uses_approx e = false -> feval e = Ok (v, fl) -> fl = true.
Proof. intros e v fl Hu H. rewrite (flag_exactly_lemma e v fl H), Hu. reflexivity. Qed.

(* the value is the exact value, before and after the repair *)
Theorem flag_value_lemma : forall e v fl,
  feval e = Ok (v, fl) -> exists w, fvalue e = Some w /\ (v == w)%Q.
Proof.
  unfold feval.
  induction e as [q|e IH|e IH|a IHa b IHb|a IHa b IHb|a IHa b IHb|a IHa b IHb];
    intros v fl H; cbn [feval_with fvalue] in *.
  - injection H as <- _. exists q. split; reflexivity.
  - destruct (feval_with vadd e) as [[v0 f0]| |]; cbn [bind] in H; try discriminate. injection H as <- _.
    destruct (IH _ _ eq_refl) as (w & -> & Hw). exists w. auto.
  - destruct (feval_with vadd e) as [[v0 f0]| |]; cbn [bind] in H; try discriminate. injection H as <- _.
    destruct (IH _ _ eq_refl) as (w & -> & Hw). exists (- w)%Q. split; [reflexivity|]. cbn [fst]. rewrite Hw. reflexivity.
  - destruct (feval_with vadd a) as [[va fa]| |]; cbn [bind] in H; try discriminate.
    destruct (feval_with vadd b) as [[vb fb]| |]; cbn [bind] in H; try discriminate.
    destruct (IHa _ _ eq_refl) as (wa & -> & Ha). destruct (IHb _ _ eq_refl) as (wb & -> & Hb).
    exists (wa + wb)%Q. split; [reflexivity|]. unfold vadd in H. cbn [fst snd] in H.
    destruct (qzero vb) eqn:Ez; injection H as <- _.
    + apply qzero_iff in Ez. rewrite <- Ha, <- Hb, Ez. ring.
    + rewrite Ha, Hb. reflexivity.
  - destruct (feval_with vadd a) as [[va fa]| |]; cbn [bind] in H; try discriminate.
    destruct (feval_with vadd b) as [[vb fb]| |]; cbn [bind] in H; try discriminate.
    destruct (IHa _ _ eq_refl) as (wa & -> & Ha). destruct (IHb _ _ eq_refl) as (wb & -> & Hb).
    exists (wa - wb)%Q. split; [reflexivity|]. unfold vadd in H. cbn [fst snd] in H.
    destruct (qzero (- vb)) eqn:Ez; injection H as <- _.
    + apply qzero_iff in Ez. rewrite <- Ha, <- Hb. unfold Qminus. rewrite Ez. ring.
    + rewrite Ha, Hb. reflexivity.
  - destruct (feval_with vadd a) as [[va fa]| |]; cbn [bind] in H; try discriminate.
    destruct (feval_with vadd b) as [[vb fb]| |]; cbn [bind] in H; try discriminate.
    destruct (IHa _ _ eq_refl) as (wa & -> & Ha). destruct (IHb _ _ eq_refl) as (wb & -> & Hb).
    injection H as <- _. exists (wa * wb)%Q. split; [reflexivity|]. cbn [fst]. rewrite Ha, Hb. reflexivity.
  - destruct (feval_with vadd a) as [[va fa]| |]; cbn [bind] in H; try discriminate.
    destruct (feval_with vadd b) as [[vb fb]| |]; cbn [bind] in H; try discriminate.
    destruct (IHa _ _ eq_refl) as (wa & -> & Ha). destruct (IHb _ _ eq_refl) as (wb & -> & Hb).
    cbn [fst snd] in H. destruct (qzero vb) eqn:Ez; try discriminate. injection H as <- _.
    assert (Ez2 : qzero wb = false).
    { destruct (qzero wb) eqn:E2; [|reflexivity]. apply qzero_iff in E2. rewrite <- Hb in E2.
      apply qzero_iff in E2. congruence. }
    rewrite Ez2. exists (wa / wb)%Q. split; [reflexivity|]. cbn [fst]. rewrite Ha, Hb. reflexivity.
Qed.
