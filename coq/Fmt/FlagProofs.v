(* Proofs about the exact-flag model Fmt/Flag.v: the statement "anything
   computed from an approximate value stays marked" is refuted by the
   faithful model (x + approximate-zero keeps x's flag), and holds outside
   that class; the value computed is always the exact value. *)
From FendV Require Import Base.Prelude Fmt.Flag.
From Coq Require Import QArith Lia.
Open Scope N_scope.

Lemma qzero_opp : forall q, qzero (- q) = qzero q.
Proof.
  intros [n d]. unfold qzero, Qeq_bool, Qopp. cbn [Qnum Qden]. 
  rewrite !Z.mul_1_r. cbn. destruct n; reflexivity.
Qed.

Lemma qzero_iff : forall q, qzero q = true <-> (q == 0)%Q.
Proof. intros. unfold qzero. apply Qeq_bool_iff. Qed.

Theorem flag_monotone_refuted_lemma :
  exists e v, uses_approx e = true /\ feval e = Ok (v, true).
Proof. exists (FAdd (FLit 1) (FApprox (FLit 0))), 1%Q. split; reflexivity. Qed.

Theorem flag_monotone_except_known_lemma : forall e v fl,
  known_C03_add_approx_zero e = false -> uses_approx e = true ->
  feval e = Ok (v, fl) -> fl = false.
Proof.
  induction e as [q|e IH|e IH|a IHa b IHb|a IHa b IHb|a IHa b IHb|a IHa b IHb];
    intros v fl Hk Hu H; cbn [feval uses_approx known_C03_add_approx_zero] in *.
  - discriminate.
  - destruct (feval e) as [[v0 f0]| |]; cbn [bind] in H; try discriminate. injection H as _ <-. reflexivity.
  - destruct (feval e) as [[v0 f0]| |] eqn:E; cbn [bind] in H; try discriminate. injection H as _ <-.
    cbn [snd]. eapply IH; eauto.
  - (* add *)
    apply Bool.orb_false_iff in Hk as [Hk Hkb]. apply Bool.orb_false_iff in Hk as [Haz Hka].
    destruct (feval a) as [[va fa]| |] eqn:Ea; cbn [bind] in H; try discriminate.
    destruct (feval b) as [[vb fb]| |] eqn:Eb; cbn [bind] in H; try discriminate.
    unfold approx_zero in Haz. rewrite Eb in Haz.
    unfold vadd in H. cbn [fst snd] in H.
    destruct (uses_approx a) eqn:Ua.
    + assert (fa = false) by (eapply IHa; eauto). subst fa.
      destruct (qzero vb); injection H as _ <-; reflexivity.
    + cbn [orb] in Hu. assert (fb = false) by (eapply IHb; eauto). subst fb.
      destruct (qzero vb); [cbn in Haz; discriminate|]. injection H as _ <-. apply Bool.andb_false_r.
  - (* sub *)
    apply Bool.orb_false_iff in Hk as [Hk Hkb]. apply Bool.orb_false_iff in Hk as [Haz Hka].
    destruct (feval a) as [[va fa]| |] eqn:Ea; cbn [bind] in H; try discriminate.
    destruct (feval b) as [[vb fb]| |] eqn:Eb; cbn [bind] in H; try discriminate.
    unfold approx_zero in Haz. rewrite Eb in Haz.
    unfold vadd in H. cbn [fst snd] in H. rewrite qzero_opp in H.
    destruct (uses_approx a) eqn:Ua.
    + assert (fa = false) by (eapply IHa; eauto). subst fa.
      destruct (qzero vb); injection H as _ <-; reflexivity.
    + cbn [orb] in Hu. assert (fb = false) by (eapply IHb; eauto). subst fb.
      destruct (qzero vb); [cbn in Haz; discriminate|]. injection H as _ <-. apply Bool.andb_false_r.
  - (* mul *)
    apply Bool.orb_false_iff in Hk as [Hka Hkb].
    destruct (feval a) as [[va fa]| |] eqn:Ea; cbn [bind] in H; try discriminate.
    destruct (feval b) as [[vb fb]| |] eqn:Eb; cbn [bind] in H; try discriminate.
    injection H as _ <-. cbn [snd].
    destruct (uses_approx a) eqn:Ua.
    + assert (fa = false) by (eapply IHa; eauto). subst fa. reflexivity.
    + cbn [orb] in Hu. assert (fb = false) by (eapply IHb; eauto). subst fb. apply Bool.andb_false_r.
  - (* div *)
    apply Bool.orb_false_iff in Hk as [Hka Hkb].
    destruct (feval a) as [[va fa]| |] eqn:Ea; cbn [bind] in H; try discriminate.
    destruct (feval b) as [[vb fb]| |] eqn:Eb; cbn [bind] in H; try discriminate.
    cbn [fst snd] in H. destruct (qzero vb); try discriminate.
    injection H as _ <-.
    destruct (uses_approx a) eqn:Ua.
    + assert (fa = false) by (eapply IHa; eauto). subst fa. reflexivity.
    + cbn [orb] in Hu. assert (fb = false) by (eapply IHb; eauto). subst fb. apply Bool.andb_false_r.
Qed.

(* the flag is never wrongly cleared: an expression without approximate
   leaves evaluates with the flag set *)
Theorem flag_exact_when_no_approx_lemma : forall e v fl,
  uses_approx e = false -> feval e = Ok (v, fl) -> fl = true.
Proof.
  induction e as [q|e IH|e IH|a IHa b IHb|a IHa b IHb|a IHa b IHb|a IHa b IHb];
    intros v fl Hu H; cbn [feval uses_approx] in *; try discriminate.
  - injection H as _ <-. reflexivity.
  - destruct (feval e) as [[v0 f0]| |] eqn:E; cbn [bind] in H; try discriminate. injection H as _ <-.
    cbn [snd]. eapply IH; eauto.
  - apply Bool.orb_false_iff in Hu as [Ua Ub].
    destruct (feval a) as [[va fa]| |] eqn:Ea; cbn [bind] in H; try discriminate.
    destruct (feval b) as [[vb fb]| |] eqn:Eb; cbn [bind] in H; try discriminate.
    assert (fa = true) by (eapply IHa; eauto). assert (fb = true) by (eapply IHb; eauto). subst.
    unfold vadd in H. cbn [fst snd] in H. destruct (qzero vb); injection H as _ <-; reflexivity.
  - apply Bool.orb_false_iff in Hu as [Ua Ub].
    destruct (feval a) as [[va fa]| |] eqn:Ea; cbn [bind] in H; try discriminate.
    destruct (feval b) as [[vb fb]| |] eqn:Eb; cbn [bind] in H; try discriminate.
    assert (fa = true) by (eapply IHa; eauto). assert (fb = true) by (eapply IHb; eauto). subst.
    unfold vadd in H. cbn [fst snd] in H. destruct (qzero (- vb)); injection H as _ <-; reflexivity.
  - apply Bool.orb_false_iff in Hu as [Ua Ub].
    destruct (feval a) as [[va fa]| |] eqn:Ea; cbn [bind] in H; try discriminate.
    destruct (feval b) as [[vb fb]| |] eqn:Eb; cbn [bind] in H; try discriminate.
    assert (fa = true) by (eapply IHa; eauto). assert (fb = true) by (eapply IHb; eauto). subst.
    injection H as _ <-. reflexivity.
  - apply Bool.orb_false_iff in Hu as [Ua Ub].
    destruct (feval a) as [[va fa]| |] eqn:Ea; cbn [bind] in H; try discriminate.
    destruct (feval b) as [[vb fb]| |] eqn:Eb; cbn [bind] in H; try discriminate.
    assert (fa = true) by (eapply IHa; eauto). assert (fb = true) by (eapply IHb; eauto). subst.
    cbn [fst snd] in H. destruct (qzero vb); try discriminate. injection H as _ <-. reflexivity.
Qed.
