(* Model of fend's numeric-literal lexer (core/src/lexer.rs: parse_char,
   parse_ascii_digit, parse_fixed_char, parse_digit_separator, parse_integer,
   parse_base_prefix, parse_recurring_digits, parse_basic_number,
   parse_number) on lists of code points.  The digit accumulators are
   naturals, combined into an exact rational (Coq Q) where the Rust combines
   `Number`s; only the value of that rational is claimed, not fend's
   un-normalised numerator/denominator pair.
   Not modelled (reported as LUnmodelled when the input reaches them): dice
   literals (`d6`, `2d6`) and Unicode superscript exponents.
   Also here: the notation's definition -- structured literals [lit],
   their text [show_lit] and their value [lit_value].
   Model file: executable definitions only. *)
From FendV Require Import Base.Prelude Fmt.Rat Fmt.Format.
From Coq Require Import QArith.
Open Scope N_scope.

Inductive lexerr :=
| LExpectedACharacter | LExpectedADigit | LExpectedChar
| LDigitSeparatorsNotAllowed | LDigitSeparatorsOnlyBetweenDigits
| LExponentTooLarge
| LUnmodelled.

Inductive lres (A : Type) := LOk (a : A) | LErr (e : lexerr).
Arguments LOk {A} a.
Arguments LErr {A} e.

Definition lbind {A C} (r : lres A) (f : A -> lres C) : lres C :=
  match r with LOk a => f a | LErr e => LErr e end.
Notation "'ldo' x <- r ; k" := (lbind r (fun x => k))
  (at level 200, x pattern, r at level 100, k at level 200, right associativity).

(* char::to_digit(radix): 0-9, a-z, A-Z, value below the radix *)
Definition char_digit_value (c : N) : option N :=
  if (48 <=? c) && (c <=? 57) then Some (c - 48)
  else if (97 <=? c) && (c <=? 122) then Some (c - 87)
  else if (65 <=? c) && (c <=? 90) then Some (c - 55)
  else None.

Definition to_digit (radix c : N) : option N :=
  match char_digit_value c with
  | Some d => if d <? radix then Some d else None
  | None => None
  end.

Definition is_ascii_digit (c : N) : bool := (48 <=? c) && (c <=? 57).

(* parse_digit_separator succeeds on '_' or the style's thousands separator *)
Definition is_digit_sep (sep : sepstyle) (c : N) : bool :=
  (c =? 95) || (c =? thousands_char sep).

(* parse_integer: at least one digit, then (separator? digit)*.
   [step] is the process_digit callback (it cannot fail in the uses modelled
   here, except in the base-prefix parser which has its own copy below). *)
Section ParseInteger.
  Context {A : Type}.
  Variable allow_sep : bool.
  Variable base : N.
  Variable sep : sepstyle.
  Variable step : A -> N -> lres A.

  Fixpoint pint_loop (input : list N) (acc : A) : lres (A * list N) :=
    match input with
    | [] => LOk (acc, [])
    | c :: r =>
      if is_digit_sep sep c then
        if negb allow_sep then LErr LDigitSeparatorsNotAllowed
        else match r with
             | [] => LErr LDigitSeparatorsOnlyBetweenDigits
             | c2 :: r2 =>
               match to_digit base c2 with
               | None => LErr LDigitSeparatorsOnlyBetweenDigits
               | Some d => ldo acc' <- step acc d; pint_loop r2 acc'
               end
             end
      else match to_digit base c with
           | None => LOk (acc, input)
           | Some d => ldo acc' <- step acc d; pint_loop r acc'
           end
    end.

  Definition parse_integer (input : list N) (acc : A) : lres (A * list N) :=
    match input with
    | [] => LErr LExpectedACharacter
    | c :: r =>
      match to_digit base c with
      | None => LErr LExpectedADigit
      | Some d => ldo acc' <- step acc d; pint_loop r acc'
      end
    end.
End ParseInteger.

(* accumulator of a digit run: (value, number of digits) *)
Definition dstep (base : N) (a : N * N) (d : N) : lres (N * N) :=
  LOk (fst a * base + d, snd a + 1).

(* parse_fixed_char(input, ch).is_ok() *)
Definition starts_with (ch : N) (input : list N) : bool :=
  match input with c :: _ => c =? ch | [] => false end.

(* parse_base_prefix; any failure makes parse_number fall back to base 10
   on the original input, so failures are just None here *)
Definition custom_base_step (cb : N) (d : N) : lres N :=
  if 3 <? cb then LErr LUnmodelled          (* BaseTooLarge *)
  else let cb' := 10 * cb + d in
       if 36 <? cb' then LErr LUnmodelled   (* BaseTooLarge *)
       else LOk cb'.

Definition parse_base_prefix (sep : sepstyle) (input : list N) : option (basek * list N) :=
  if starts_with 48 input then
    match tl input with
    | [] => None
    | ch :: r =>
      if ch =? 120 then Some (BHex, r)
      else if ch =? 111 then Some (BOct, r)
      else if ch =? 98 then Some (BBin, r)
      else None
    end
  else
    match parse_integer false 10 sep custom_base_step input 0 with
    | LOk (cb, rest) =>
      if cb <? 2 then None
      else if starts_with 35 rest then Some (BCustom cb, tl rest) else None
    | LErr _ => None
    end.

Definition qN (n : N) : Q := inject_Z (Z.of_N n).

(* parse_recurring_digits: returns the addend and the remaining input *)
Definition parse_recurring_digits (base : N) (sep : sepstyle) (num_nonrec : N)
  (input : list N) : lres (Q * list N) :=
  if starts_with 40 input then
    let r := tl input in
    match r with
    | [] => LOk (0%Q, input)
    | c :: _ =>
      match to_digit base c with
      | None => LOk (0%Q, input)
      | Some _ =>
        ldo p <- parse_integer true base sep (dstep base) r (0, 0);
        let '((rnum, rlen), rest) := p in
        let rden := (base ^ rlen - 1) * base ^ num_nonrec in
        match rest with
        | [] => LErr LExpectedACharacter
        | c2 :: rest2 =>
          if c2 =? 41 then LOk ((qN rnum / qN rden)%Q, rest2)
          else LErr LExpectedChar
        end
      end
    end
  else LOk (0%Q, input).

Definition SUPERSCRIPTS : list N := [8304; 185; 178; 179; 8308; 8309; 8310; 8311; 8312; 8313].
Definition is_superscript (c : N) : bool := existsb (N.eqb c) SUPERSCRIPTS.

Definition starts_dice (base : N) (input : list N) : bool :=
  starts_with 100 input && (base <=? 10) &&
  match tl input with c :: _ => is_ascii_digit c | [] => false end.

(* parse_basic_number, in the order of the source: integer component,
   decimal point with digits and recurring digits, dice check, exponent,
   superscript check *)

(* integer component, unless the input starts with the decimal point *)
Definition pbn_int (base : N) (sep : sepstyle) (input : list N) : lres (N * list N) :=
  match input with
  | c :: _ => if c =? decimal_char sep then LOk (0, input)
              else ldo p <- parse_integer true base sep (dstep base) input (0, 0);
                   LOk (fst (fst p), snd p)
  | [] => LErr LExpectedACharacter
  end.

(* decimal point, digits, recurring digits: (is_integer, value so far, rest) *)
Definition pbn_frac (base : N) (sep : sepstyle) (int_val : N) (input1 : list N)
  : lres (bool * Q * list N) :=
  match input1 with
  | c :: rem =>
    if c =? decimal_char sep then
      ldo nf <- (if starts_with 40 rem then LOk ((0, 0), rem)
                 else parse_integer true base sep (dstep base) rem (0, 0));
      let '((fnum, flen), input2) := nf in
      ldo rc <- parse_recurring_digits base sep flen input2;
      LOk (false, (qN int_val + qN fnum / qN (base ^ flen) + fst rc)%Q, snd rc)
    else LOk (true, qN int_val, input1)
  | [] => LOk (true, qN int_val, input1)
  end.

(* dice syntax after an integer (`2d6`): not modelled *)
Definition pbn_dice_after (base : N) (is_integer : bool) (input3 : list N) : bool :=
  is_integer && (base <=? 10) && starts_with 100 input3 &&
  match tl input3 with
  | c :: _ => match to_digit base c with Some _ => true | None => false end
  | [] => false
  end.

(* exponent, base 10 and below only *)
Definition pbn_exp (base : N) (sep : sepstyle) (res : Q) (input3 : list N) : lres (Q * list N) :=
  if base <=? 10 then
    match input3 with
    | e :: rem =>
      if (e =? 101) || (e =? 69) then
        match rem with
        | ch :: _ =>
          if is_ascii_digit ch || (ch =? 43) || (ch =? 45) then
            let '(negexp, rem2) :=
              if ch =? 45 then (true, tl rem)
              else if ch =? 43 then (false, tl rem)
              else (false, rem) in
            ldo p <- parse_integer true base sep (dstep base) rem2 (0, 0);
            let '((ev, _), rest) := p in
            if 2 ^ 64 <=? ev then LErr LExponentTooLarge
            else LOk ((res * Qpower (qN base) (if negexp then - Z.of_N ev else Z.of_N ev))%Q, rest)
          else LOk (res, input3)
        | [] => LOk (res, input3)
        end
      else LOk (res, input3)
    | [] => LOk (res, input3)
    end
  else LOk (res, input3).

Definition starts_superscript (input : list N) : bool :=
  match input with c :: _ => is_superscript c | [] => false end.

Definition parse_basic_number (base : N) (sep : sepstyle) (input : list N)
  : lres (Q * list N) :=
  if starts_dice base input then LErr LUnmodelled else
  ldo ip <- pbn_int base sep input;
  ldo fp <- pbn_frac base sep (fst ip) (snd ip);
  if pbn_dice_after base (fst (fst fp)) (snd fp) then LErr LUnmodelled else
  ldo ex <- pbn_exp base sep (snd (fst fp)) (snd fp);
  (* superscript exponents: not modelled *)
  if (base <=? 10) && starts_superscript (snd ex) then LErr LUnmodelled
  else LOk ex.

(* parse_number: optional base prefix, then the number *)
Definition parse_number (sep : sepstyle) (input : list N) : lres (Q * basek * list N) :=
  let '(bk, input1) :=
    match parse_base_prefix sep input with
    | Some p => p
    | None => (BPlain 10, input)
    end in
  ldo r <- parse_basic_number (base_val bk) sep input1;
  LOk (fst r, bk, snd r).

(* Lexer::next_token takes the number branch when the first character is an
   ASCII digit, the decimal separator, or `d` followed by an ASCII digit *)
Definition number_token_start (sep : sepstyle) (input : list N) : bool :=
  match input with
  | ch :: r =>
    is_ascii_digit ch || (ch =? decimal_char sep) ||
    ((ch =? 100) && match r with c2 :: _ => is_ascii_digit c2 | [] => false end)
  | [] => false
  end.

(* ------------------------------------------------------------------ *)
(* The notation: structured literals *)

(* a digit as written: its value and, for letters, the case *)
Record wdigit := mkwd { wd_val : N; wd_upper : bool }.

Definition wdigit_char (d : wdigit) : N :=
  if wd_val d <? 10 then 48 + wd_val d
  else if wd_upper d then 55 + wd_val d else 87 + wd_val d.

(* separator written before a digit *)
Inductive wsep := WNone | WUnderscore | WThousands.

(* a digit run: first digit, then digits each optionally preceded by a separator *)
Record drun := mkdrun { dr_first : wdigit; dr_more : list (wsep * wdigit) }.

Definition wsep_text (sep : sepstyle) (w : wsep) : list N :=
  match w with WNone => [] | WUnderscore => [95] | WThousands => [thousands_char sep] end.

Definition show_drun (sep : sepstyle) (r : drun) : list N :=
  wdigit_char (dr_first r) ::
  flat_map (fun p => wsep_text sep (fst p) ++ [wdigit_char (snd p)]) (dr_more r).

Definition drun_digits (r : drun) : list N :=
  wd_val (dr_first r) :: map (fun p => wd_val (snd p)) (dr_more r).

Definition digits_val (base : N) (ds : list N) : N :=
  fold_left (fun a d => a * base + d) ds 0.

Definition drun_val (base : N) (r : drun) : N := digits_val base (drun_digits r).
Definition drun_len (r : drun) : N := N.of_nat (length (drun_digits r)).

Definition drun_ok (base : N) (r : drun) : bool :=
  forallb (fun d => d <? base) (drun_digits r).

Inductive fracpart :=
| NoFrac
| Frac (f : drun) (r : option drun)     (* .f  or  .f(r) *)
| RecOnly (r : drun).                   (* .(r) *)

Inductive expsign := ESNone | ESPlus | ESMinus.

Record lit := mklit {
  l_base : basek;                 (* BPlain 10 = no prefix *)
  l_int : option drun;            (* may be omitted when a fraction part follows *)
  l_frac : fracpart;
  l_exp : option (bool * expsign * drun)   (* capital E?, sign, digits *)
}.

Definition show_frac (sep : sepstyle) (f : fracpart) : list N :=
  match f with
  | NoFrac => []
  | Frac f None => decimal_char sep :: show_drun sep f
  | Frac f (Some r) => decimal_char sep :: show_drun sep f ++ [40] ++ show_drun sep r ++ [41]
  | RecOnly r => decimal_char sep :: [40] ++ show_drun sep r ++ [41]
  end.

Definition show_exp (sep : sepstyle) (e : option (bool * expsign * drun)) : list N :=
  match e with
  | None => []
  | Some (cap, s, d) =>
    (if cap then 69 else 101) ::
    (match s with ESNone => [] | ESPlus => [43] | ESMinus => [45] end) ++ show_drun sep d
  end.

Definition show_lit (sep : sepstyle) (l : lit) : list N :=
  prefix_text (l_base l) ++
  (match l_int l with Some i => show_drun sep i | None => [] end) ++
  show_frac sep (l_frac l) ++ show_exp sep (l_exp l).

(* the value the notation defines *)
Definition frac_value (base : N) (f : fracpart) : Q :=
  match f with
  | NoFrac => 0
  | Frac f None => qN (drun_val base f) / qN (base ^ drun_len f)
  | Frac f (Some r) =>
    qN (drun_val base f) / qN (base ^ drun_len f)
    + qN (drun_val base r) / qN ((base ^ drun_len r - 1) * base ^ drun_len f)
  | RecOnly r => qN (drun_val base r) / qN (base ^ drun_len r - 1)
  end%Q.

Definition exp_value (base : N) (e : option (bool * expsign * drun)) : Z :=
  match e with
  | None => 0
  | Some (_, ESMinus, d) => - Z.of_N (drun_val base d)
  | Some (_, _, d) => Z.of_N (drun_val base d)
  end.

Definition lit_value (l : lit) : Q :=
  let b := base_val (l_base l) in
  ((qN (match l_int l with Some i => drun_val b i | None => 0 end) + frac_value b (l_frac l))
   * Qpower (qN b) (exp_value b (l_exp l)))%Q.

(* well-formed literal *)
Definition base_ok (k : basek) : bool :=
  match k with
  | BBin | BOct | BHex => true
  | BCustom b => (2 <=? b) && (b <=? 36)
  | BPlain b => b =? 10
  end.

Definition frac_ok (base : N) (f : fracpart) : bool :=
  match f with
  | NoFrac => true
  | Frac f None => drun_ok base f
  | Frac f (Some r) => drun_ok base f && drun_ok base r
  | RecOnly r => drun_ok base r
  end.

Definition lit_ok (l : lit) : bool :=
  let b := base_val (l_base l) in
  base_ok (l_base l) &&
  (match l_int l with
   | Some i => drun_ok b i
   | None => match l_frac l with NoFrac => false | _ => true end
   end) &&
  frac_ok b (l_frac l) &&
  (match l_exp l with
   | None => true
   | Some (_, _, d) => (b <=? 10) && drun_ok b d && (drun_val b d <? 2 ^ 64)
   end) &&
  (* a literal without prefix must start with an ASCII digit or the point to
     be taken for a number at all; with base 10 digits that is automatic *)
  true.

(* what may follow a literal so that the lexer stops exactly there: anything
   that is not an ASCII letter or digit, '_', '.', ',', '(', '#' or a superscript *)
Definition ok_follow (rest : list N) : bool :=
  match rest with
  | [] => true
  | c :: _ =>
    negb (match char_digit_value c with Some _ => true | None => false end) &&
    negb (c =? 95) && negb (c =? 46) && negb (c =? 44) && negb (c =? 40) && negb (c =? 35) &&
    negb (is_superscript c)
  end.

(* ------------------------------------------------------------------ *)
(* Reading a rendering back (spec-level glue for the round trip): optional
   minus sign, then  n | n/d | i n/d  where every number is lexed by the
   model; for a prefix-less base the numbers are lexed directly in that base
   (this is "the base prefix restored"). *)

Definition read_num (sep : sepstyle) (base : basek) (s : list N) : option (Q * list N) :=
  if has_prefix base then
    match parse_number sep s with
    | LOk (v, bk, rest) => if base_val bk =? base_val base then Some (v, rest) else None
    | LErr _ => None
    end
  else
    match parse_basic_number (base_val base) sep s with
    | LOk (v, rest) => Some (v, rest)
    | LErr _ => None
    end.

Definition read_unsigned (sep : sepstyle) (base : basek) (s : list N) : option Q :=
  match read_num sep base s with
  | Some (v1, []) => Some v1
  | Some (v1, c :: r2) =>
    if c =? 47 then
      match read_num sep base r2 with
      | Some (v2, []) => Some (v1 / v2)%Q
      | _ => None
      end
    else if c =? 32 then
      match read_num sep base r2 with
      | Some (v2, c2 :: r3) =>
        if c2 =? 47 then
          match read_num sep base r3 with
          | Some (v3, []) => Some (v1 + v2 / v3)%Q
          | _ => None
          end
        else None
      | _ => None
      end
    else None
  | None => None
  end.

Definition read_rendering (sep : sepstyle) (base : basek) (s : list N) : option Q :=
  if starts_with 45 s then
    match read_unsigned sep base (tl s) with Some v => Some (- v)%Q | None => None end
  else read_unsigned sep base s.
