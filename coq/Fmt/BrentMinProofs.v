(* Minimality for Brent's cycle detection as modelled in Fmt/Format.v: the
   period it returns divides every period of the remainder sequence and the
   pre-period is the least index from which the sequence repeats -- so the
   recurring rendering is digit for digit the canonical expansion. *)
From FendV Require Import Base.Prelude Fmt.Rat Fmt.Format Fmt.Lex Fmt.IntFmtProofs Fmt.ExpansionProofs.
From Coq Require Import Lia ZifyBool.
Open Scope N_scope.

Arguments N.add : simpl never.
Arguments N.sub : simpl never.
Arguments N.mul : simpl never.
Arguments N.div : simpl never.
Arguments N.modulo : simpl never.
Arguments N.eqb : simpl never.
Arguments N.ltb : simpl never.
Arguments N.leb : simpl never.
Arguments N.pow : simpl never.

Section Seq.
  Variables b den x0 : N.

  (* the remainder sequence *)
  Definition sq (i : nat) : N := iter_rem b den i x0.

  Lemma sq_add : forall i k, sq (i + k) = iter_rem b den k (sq i).
  Proof. intros. unfold sq. apply iter_rem_add. Qed.

  (* l is a period at index m *)
  Definition rep (m l : nat) : Prop := sq (m + l) = sq m.

  Lemma rep_shift : forall m l k, rep m l -> rep (m + k) l.
  Proof.
    intros m l k H. unfold rep in *.
    replace (m + k + l)%nat with (m + l + k)%nat by lia. rewrite (sq_add (m + l) k), (sq_add m k), H. reflexivity.
  Qed.

  Lemma rep_mul : forall m l k, rep m l -> rep m (k * l).
  Proof.
    intros m l k H. induction k as [|k IH]; unfold rep in *.
    - cbn. rewrite Nat.add_0_r. reflexivity.
    - replace (m + S k * l)%nat with (m + k * l + l)%nat by lia.
      pose proof (rep_shift m l (k * l) H) as Hs. unfold rep in Hs. rewrite Hs. exact IH.
  Qed.

  (* periods at a cycle index are closed under subtraction *)
  Lemma rep_sub : forall m l1 l2, rep m l1 -> rep m l2 -> (l1 <= l2)%nat -> rep m (l2 - l1).
  Proof.
    intros m l1 l2 H1 H2 Hle. unfold rep in *.
    pose proof (rep_shift m l1 (l2 - l1) H1) as Hs. unfold rep in Hs.
    replace (m + (l2 - l1) + l1)%nat with (m + l2)%nat in Hs by lia.
    rewrite <- Hs. exact H2.
  Qed.

  (* hence every period at m is a multiple of the least one *)
  Lemma rep_divides : forall m l0, (1 <= l0)%nat -> rep m l0 ->
    (forall l', (1 <= l' < l0)%nat -> ~ rep m l') ->
    forall l, rep m l -> exists k, l = (k * l0)%nat.
  Proof.
    intros m l0 Hl0 H0 Hmin l. induction l as [l IH] using lt_wf_ind. intros Hl.
    destruct (Nat.lt_ge_cases l l0) as [Hlt|Hge].
    - destruct l as [|l]; [exists O; reflexivity|]. exfalso. apply (Hmin (S l)); [lia|assumption].
    - destruct (IH (l - l0)%nat) as (k & Hk); [lia|apply rep_sub; assumption|].
      exists (S k). lia.
  Qed.

  (* a period at m+1 is a period at m when m already repeats *)
  Lemma rep_back : forall m l0 l, (1 <= l0)%nat -> rep m l0 -> rep (m + 1) l -> rep m l.
  Proof.
    intros m l0 l Hl0 H0 H1. unfold rep in *.
    (* sq (m+l) = sq (m+l+l0) = sq ((m+1)+l+(l0-1)) = sq ((m+1)+(l0-1)) = sq (m+l0) = sq m *)
    pose proof (rep_shift m l0 l H0) as Ha. unfold rep in Ha.
    rewrite <- Ha.
    replace (m + l + l0)%nat with (m + 1 + l + (l0 - 1))%nat by lia.
    rewrite (sq_add (m + 1 + l) (l0 - 1)), H1, <- sq_add.
    replace (m + 1 + (l0 - 1))%nat with (m + l0)%nat by lia. exact H0.
  Qed.

  Lemma rep_back_k : forall k m l0 l, (1 <= l0)%nat -> rep m l0 -> rep (m + k) l -> rep m l.
  Proof.
    induction k as [|k IH]; intros m l0 l Hl0 H0 Hk.
    - rewrite Nat.add_0_r in Hk. assumption.
    - apply (rep_back m l0 l Hl0 H0). apply (IH (m + 1)%nat l0 l Hl0).
      + apply rep_shift. assumption.
      + replace (m + 1 + k)%nat with (m + S k)%nat by lia. assumption.
  Qed.

  (* the least period is the same at every repeating index *)
  Lemma periods_agree : forall m1 m2 l1 l, (1 <= l1)%nat -> rep m1 l1 -> (1 <= l)%nat -> rep m2 l -> rep m1 l.
  Proof.
    intros m1 m2 l1 l Hl1 H1 Hl H2.
    destruct (Nat.le_ge_cases m1 m2) as [Hle|Hge].
    - apply (rep_back_k (m2 - m1) m1 l1 l Hl1 H1). replace (m1 + (m2 - m1))%nat with m2 by lia. assumption.
    - replace m1 with (m2 + (m1 - m2))%nat by lia. apply rep_shift. assumption.
  Qed.
End Seq.

(* ------------------------------------------------------------------ *)
(* phase 1 returns the least period at the final tortoise index *)

Lemma nd_all_step : forall b den r nh, nd_all b den r = Ok nh -> fst nh = (r * b) mod den.
Proof. intros b den r [n d] H. apply nd_all_ok in H. cbn. tauto. Qed.

Lemma sq_succ : forall b den x0 i, sq b den x0 (S i) = (sq b den x0 i * b) mod den.
Proof. intros. unfold sq. apply iter_rem_snoc. Qed.

Lemma phase1_least : forall b den x0 fuel power lam tort hare l t,
  tort = sq b den x0 t -> hare = sq b den x0 (t + N.to_nat lam) -> 1 <= lam ->
  (forall l', (1 <= l' < N.to_nat lam)%nat -> ~ rep b den x0 t l') ->
  brent_phase1 fuel b den power lam tort hare = Ok l ->
  exists t', (1 <= N.to_nat l)%nat /\ rep b den x0 t' (N.to_nat l) /\
             (forall l', (1 <= l' < N.to_nat l)%nat -> ~ rep b den x0 t' l').
Proof.
  intros b den x0 fuel. induction fuel as [|fuel IH]; intros power lam tort hare l t Ht Hh Hlam Hmin H;
    cbn [brent_phase1] in H.
  - destruct (tort =? hare) eqn:E; [|discriminate]. injection H as <-. apply N.eqb_eq in E.
    exists t. split; [lia|]. split; [unfold rep; congruence|assumption].
  - destruct (tort =? hare) eqn:E.
    + injection H as <-. apply N.eqb_eq in E.
      exists t. split; [lia|]. split; [unfold rep; congruence|assumption].
    + apply N.eqb_neq in E.
      assert (Hnot : ~ rep b den x0 t (N.to_nat lam)) by (unfold rep; congruence).
      destruct (power =? lam) eqn:Ep.
      * (* teleport the tortoise to the hare *)
        destruct (nd_all b den hare) as [nh| |] eqn:En; cbn [bind] in H; try discriminate.
        apply nd_all_step in En.
        apply (IH _ _ _ _ _ (t + N.to_nat lam)%nat) in H; try assumption; try lia.
        -- rewrite En, Hh. replace (t + N.to_nat lam + N.to_nat (0 + 1))%nat with (S (t + N.to_nat lam)) by lia.
           symmetry. apply sq_succ.
      * destruct (nd_all b den hare) as [nh| |] eqn:En; cbn [bind] in H; try discriminate.
        apply nd_all_step in En.
        apply (IH _ _ _ _ _ t) in H; try assumption; try lia.
        -- rewrite En, Hh. replace (t + N.to_nat (lam + 1))%nat with (S (t + N.to_nat lam)) by lia.
           symmetry. apply sq_succ.
        -- intros l' Hl'. destruct (Nat.eq_dec l' (N.to_nat lam)) as [->|Hne]; [assumption|]. apply Hmin. lia.
Qed.

(* phase 3 returns the least index at which lam is a period *)
Lemma phase3_least : forall base den x0 lam fuel tort hare mu out mu' out' m,
  tort = sq (base_val base) den x0 m -> hare = sq (base_val base) den x0 (m + lam) ->
  mu = N.of_nat m ->
  (forall m', (m' < m)%nat -> ~ rep (base_val base) den x0 m' lam) ->
  brent_phase3 fuel base den tort hare mu out = Ok (mu', out') ->
  rep (base_val base) den x0 (N.to_nat mu') lam /\
  (forall m', (m' < N.to_nat mu')%nat -> ~ rep (base_val base) den x0 m' lam).
Proof.
  intros base den x0 lam fuel. induction fuel as [|fuel IH]; intros tort hare mu out mu' out' m Ht Hh Hmu Hmin H;
    cbn [brent_phase3] in H.
  - destruct (tort =? hare) eqn:E; [|discriminate]. injection H as <- _. apply N.eqb_eq in E.
    subst mu. rewrite Nat2N.id. split; [unfold rep; congruence|assumption].
  - destruct (tort =? hare) eqn:E.
    + injection H as <- _. apply N.eqb_eq in E. subst mu. rewrite Nat2N.id.
      split; [unfold rep; congruence|assumption].
    + apply N.eqb_neq in E.
      destruct (nd_all (base_val base) den tort) as [nt| |] eqn:Et; cbn [bind] in H; try discriminate.
      destruct (nd_all (base_val base) den hare) as [nh| |] eqn:Eh; cbn [bind] in H; try discriminate.
      destruct (digit_text base (snd nh)) as [dt| |]; cbn [bind] in H; try discriminate.
      apply nd_all_step in Et. apply nd_all_step in Eh.
      apply (IH _ _ _ _ _ _ (S m)) in H; try assumption.
      * rewrite Et, Ht. symmetry. apply sq_succ.
      * rewrite Eh, Hh. replace (S m + lam)%nat with (S (m + lam)) by lia. symmetry. apply sq_succ.
      * lia.
      * intros m' Hm'. destruct (Nat.eq_dec m' m) as [->|Hne]; [unfold rep; congruence|apply Hmin; lia].
Qed.

(* MINIMALITY: the period found divides every period of the remainder
   sequence, and no repetition starts before the pre-period found *)
Theorem brents_minimal : forall fuel base den x0 lam mu out,
  2 <= base_val base <= 36 -> x0 < den ->
  brents_algorithm fuel base den x0 = Ok (lam, mu, out) ->
  forall m l, (1 <= l)%nat -> sq (base_val base) den x0 (m + l) = sq (base_val base) den x0 m ->
  (N.to_nat mu <= m)%nat /\ exists k, l = (k * N.to_nat lam)%nat.
Proof.
  intros fuel base den x0 lam mu out Hb Hx H m l Hl Hrep.
  set (b := base_val base) in *.
  unfold brents_algorithm in H. fold b in H.
  destruct (nd_all b den x0) as [h0| |] eqn:E0; cbn [bind] in H; try discriminate.
  destruct (brent_phase1 fuel b den 1 1 x0 (fst h0)) as [lam1| |] eqn:E1; cbn [bind] in H; try discriminate.
  destruct (brent_phase2 (N.to_nat lam1) base den x0 []) as [[h2 out2]| |] eqn:E2; cbn [bind] in H; try discriminate.
  destruct (brent_phase3 fuel base den x0 (fst (h2, out2)) 0 (snd (h2, out2))) as [[mu3 out3]| |] eqn:E3;
    cbn [bind] in H; try discriminate.
  cbn [fst snd] in *. injection H as <- <- <-.
  apply nd_all_step in E0.
  (* phase 1: lam1 is the least period at some index t' *)
  apply (phase1_least b den x0 fuel 1 1 x0 (fst h0) lam1 O) in E1;
    [|reflexivity|rewrite E0; cbn; unfold sq; cbn [iter_rem]; reflexivity|lia|intros; lia].
  destruct E1 as (t' & Hl1 & Hrep1 & Hmin1).
  (* phase 2 moves the hare lam1 steps *)
  apply (phase2_spec base den Hb) in E2; [|assumption]. destruct E2 as (-> & _). fold b in E3.
  (* phase 3: mu3 is the least index with period lam1 *)
  apply (phase3_least base den x0 (N.to_nat lam1) fuel x0 _ 0 _ mu3 out3 O) in E3;
    [|reflexivity|reflexivity|reflexivity|intros; lia].
  destruct E3 as (Hrep3 & Hmin3). fold b in Hrep3, Hmin3.
  assert (Hrm : rep b den x0 m l) by exact Hrep.
  split.
  - (* rep m l -> rep m lam1 (periods agree on the cycle) -> mu3 <= m *)
    destruct (Nat.le_gt_cases (N.to_nat mu3) m) as [|Hlt]; [assumption|exfalso].
    apply (Hmin3 m Hlt). apply (periods_agree b den x0 m t' l (N.to_nat lam1)); assumption.
  - (* l is a period at t', whose least period is lam1 *)
    apply (rep_divides b den x0 t' (N.to_nat lam1) Hl1 Hrep1 Hmin1).
    apply (periods_agree b den x0 t' m (N.to_nat lam1) l); assumption.
Qed.
