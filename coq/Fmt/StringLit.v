(* Model of core/src/lexer.rs parse_unicode_escape / parse_string_literal on
   lists of code points (a Rust str only ever holds Unicode scalar values),
   plus the spec side: the string-literal notation as a list of items with
   its source text (show_items) and the text it denotes (denote_items).
   No proofs in this file (see StringLitProofs.v).

   Panic sites: none.  The two unwraps in the backslash-x arm convert a
   digit value below 16 (result of char::to_digit) into u8 and cannot fail;
   hex1 * 16 + hex2 is at most 7 * 16 + 15 = 127, so the u8 arithmetic does
   not overflow; in the unicode escape result_value is at most 0x10ffff
   before being multiplied by 16, which fits a u32; the two split_at calls
   cut at the (one byte, ASCII) quote characters.  The control escape
   computes code - 64 only when 63 <= code <= 95 and code <> 63, so no
   underflow either. *)
From FendV Require Import Base.Prelude.
Open Scope N_scope.

(* ------------------------------------------------------------------ *)
(* errors and results *)

Inductive slerr :=
| SLUnterminated | SLInvalidUnicode | SLBackslashX | SLExpectedLetterOrCode
| SLUnknownEscape.

Inductive slres (A : Type) :=
| SLOk (a : A)
| SLErr (e : slerr).
Arguments SLOk {A} a.
Arguments SLErr {A} e.

(* the FendError variant names *)
Definition slerr_name (e : slerr) : list N :=
  match e with
  | SLUnterminated => B"UnterminatedStringLiteral"
  | SLInvalidUnicode => B"InvalidUnicodeEscapeSequence"
  | SLBackslashX => B"BackslashXOutOfRange"
  | SLExpectedLetterOrCode => B"ExpectedALetterOrCode"
  | SLUnknownEscape => B"UnknownBackslashEscapeSequence"
  end.

(* ------------------------------------------------------------------ *)
(* character classes of the Rust standard library *)

(* char::is_ascii_whitespace: space, tab, line feed, form feed, carriage
   return; NOT vertical tab (11) *)
Definition is_ascii_ws (c : N) : bool :=
  (c =? 32) || (c =? 9) || (c =? 10) || (c =? 12) || (c =? 13).

(* char::to_digit(16); Some exactly on the ASCII hex digits, i.e. exactly
   when char::is_ascii_hexdigit holds *)
Definition hex_digit_val (c : N) : option N :=
  if (48 <=? c) && (c <=? 57) then Some (c - 48)
  else if (97 <=? c) && (c <=? 102) then Some (c - 87)
  else if (65 <=? c) && (c <=? 70) then Some (c - 55)
  else None.

(* char::to_digit(8) *)
Definition oct_digit_val (c : N) : option N :=
  if (48 <=? c) && (c <=? 55) then Some (c - 48) else None.

(* char::try_from(u32) succeeds *)
Definition sl_is_scalar (c : N) : bool :=
  (c <? 1114112) && negb ((55296 <=? c) && (c <=? 57343)).

(* ------------------------------------------------------------------ *)
(* parse_unicode_escape: the input is what follows the backslash-u *)

(* the loop; [value] is result_value, [zero_length] the flag of the same
   name.  is_ascii_hexdigit and the (never failing) to_digit(16) that follows
   it are merged into one match. *)
Fixpoint pue_digits (s : list N) (value : N) (zero_length : bool)
  : slres (N * list N) :=
  match s with
  | [] => SLErr SLUnterminated
  | ch :: r =>
    match hex_digit_val ch with
    | Some d =>
      let v := value * 16 + d in
      if 1114111 <? v then SLErr SLInvalidUnicode else pue_digits r v false
    | None =>
      if ch =? 125 then
        if zero_length then SLErr SLInvalidUnicode
        else if sl_is_scalar value then SLOk (value, r)
        else SLErr SLInvalidUnicode
      else SLErr SLInvalidUnicode
    end
  end.

Definition parse_unicode_escape (s : list N) : slres (N * list N) :=
  match s with
  | [] => SLErr SLUnterminated
  | ch :: r => if ch =? 123 then pue_digits r 0 true else SLErr SLInvalidUnicode
  end.

(* ------------------------------------------------------------------ *)
(* parse_string_literal *)

(* the eleven escapes that stand for one fixed character *)
Definition named_escape (c : N) : option N :=
  if c =? 92 then Some 92 else if c =? 34 then Some 34 else if c =? 39 then Some 39
  else if c =? 97 then Some 7 else if c =? 98 then Some 8 else if c =? 101 then Some 27
  else if c =? 102 then Some 12 else if c =? 110 then Some 10 else if c =? 114 then Some 13
  else if c =? 116 then Some 9 else if c =? 118 then Some 11 else None.

(* The body of the [if ch == backslash] arm.  [r] is the input after the
   backslash, [k skip acc rest] continues the while loop with the given
   skip_whitespace flag, literal_string (reversed) and remaining input. *)
Definition psl_escape (k : bool -> list N -> list N -> slres (list N * list N))
  (acc : list N) (r : list N) : slres (list N * list N) :=
  match r with
  | [] => SLErr SLUnterminated
  | next :: r1 =>
    match named_escape next with
    | Some e => k false (e :: acc) r1
    | None =>
      if next =? 120 then
        (* both characters are fetched before either is looked at *)
        match r1 with
        | hex1 :: hex2 :: r2 =>
          match oct_digit_val hex1 with
          | None => SLErr SLBackslashX
          | Some a =>
            match hex_digit_val hex2 with
            | None => SLErr SLBackslashX
            | Some b => k false ((a * 16 + b) :: acc) r2
            end
          end
        | _ => SLErr SLUnterminated
        end
      else if next =? 117 then
        match parse_unicode_escape r1 with
        | SLOk (c, r2) => k false (c :: acc) r2
        | SLErr e => SLErr e
        end
      else if next =? 122 then k true acc r1
      else if next =? 94 then
        match r1 with
        | [] => SLErr SLUnterminated
        | letter :: r2 =>
          (* [letter as u8] keeps the low eight bits of the code point *)
          let code := letter mod 256 in
          if (63 <=? code) && (code <=? 95) then
            k false ((if code =? 63 then 127 else code - 64) :: acc) r2
          else SLErr SLExpectedLetterOrCode
        end
      else SLErr SLUnknownEscape
    end
  end.

(* The while loop.  Every iteration consumes at least one character, so
   fuel = length + 1 is never exhausted (StringLitProofs.psl_go_fuel); the
   out-of-fuel answer is arbitrary.  [skip] is skip_whitespace, [acc] is
   literal_string reversed.  A set skip flag is cleared by the first
   character that is not ASCII whitespace, which is then processed
   normally; hence every continuation except the one of backslash-z passes
   [false]. *)
Fixpoint psl_go (fuel : nat) (term : N) (skip : bool) (acc : list N) (s : list N)
  : slres (list N * list N) :=
  match fuel with
  | O => SLErr SLUnterminated
  | S f =>
    match s with
    | [] => SLErr SLUnterminated
    | ch :: r =>
      if skip && is_ascii_ws ch then psl_go f term true acc r
      else if ch =? term then SLOk (rev acc, r)
      else if ch =? 92 then psl_escape (psl_go f term) acc r
      else psl_go f term false (ch :: acc) r
    end
  end.

(* [term] is the opening quote character (34 or 39), [s] the input after
   it; the result is the literal's text and the input after the closing
   quote. *)
Definition parse_string_literal (term : N) (s : list N) : slres (list N * list N) :=
  psl_go (S (length s)) term false [] s.

(* ------------------------------------------------------------------ *)
(* spec side: the notation *)

Inductive slitem :=
| Plain (c : N)          (* a character standing for itself *)
| EscNamed (c : N)       (* backslash + one of  \ dquote quote a b e f n r t v  *)
| EscHex (hi lo : N) (upper : bool)
                         (* backslash x, octal digit hi, hex digit lo (written
                            with A-F when [upper], a-f otherwise) *)
| EscUni (digits : list N)
                         (* backslash u { hex digit characters } *)
| EscCtrl (x : N)        (* backslash ^ x, x one of ? @ A-Z [ backslash ] ^ _ *)
| EscZ (ws : list N).    (* backslash z followed by ASCII whitespace *)

Definition hex_char (upper : bool) (d : N) : N :=
  if d <? 10 then 48 + d else if upper then 55 + d else 87 + d.

Definition show_item (it : slitem) : list N :=
  match it with
  | Plain c => [c]
  | EscNamed c => [92; c]
  | EscHex hi lo upper => [92; 120; 48 + hi; hex_char upper lo]
  | EscUni ds => 92 :: 117 :: 123 :: ds ++ [125]
  | EscCtrl x => [92; 94; x]
  | EscZ ws => 92 :: 122 :: ws
  end.

Fixpoint show_items (items : list slitem) : list N :=
  match items with
  | [] => []
  | it :: r => show_item it ++ show_items r
  end.

(* escape letter -> character, as a table *)
Definition named_table : list (N * N) :=
  [(92, 92); (34, 34); (39, 39); (97, 7); (98, 8); (101, 27); (102, 12);
   (110, 10); (114, 13); (116, 9); (118, 11)].

Fixpoint assoc_N (k : N) (t : list (N * N)) : option N :=
  match t with
  | [] => None
  | (a, b) :: r => if k =? a then Some b else assoc_N k r
  end.

Definition is_hex_char (c : N) : bool :=
  is_digit c || ((97 <=? c) && (c <=? 102)) || ((65 <=? c) && (c <=? 70)).

(* big-endian base 16 value of a list of hex digit characters *)
Definition uni_value (ds : list N) : N :=
  fold_left (fun v c => v * 16 + hex_val c) ds 0.

Definition denote_item (it : slitem) : list N :=
  match it with
  | Plain c => [c]
  | EscNamed c => match assoc_N c named_table with Some e => [e] | None => [] end
  | EscHex hi lo _ => [hi * 16 + lo]
  | EscUni ds => [uni_value ds]
  | EscCtrl x => [if x =? 63 then 127 else x - 64]
  | EscZ _ => []
  end.

Fixpoint denote_items (items : list slitem) : list N :=
  match items with
  | [] => []
  | it :: r => denote_item it ++ denote_items r
  end.

Definition is_nil {A} (l : list A) : bool :=
  match l with [] => true | _ => false end.

Definition wf_item (term : N) (it : slitem) : bool :=
  match it with
  | Plain c => negb (c =? 92) && negb (c =? term) && sl_is_scalar c
  | EscNamed c => match assoc_N c named_table with Some _ => true | None => false end
  | EscHex hi lo _ => (hi <? 8) && (lo <? 16)
  | EscUni ds => negb (is_nil ds) && forallb is_hex_char ds && sl_is_scalar (uni_value ds)
  | EscCtrl x => (63 <=? x) && (x <=? 95)
  | EscZ ws => forallb is_ascii_ws ws
  end.

(* whitespace directly after a backslash-z item would be swallowed *)
Definition starts_ws (it : slitem) : bool :=
  match it with Plain c => is_ascii_ws c | _ => false end.

Definition is_escz (it : slitem) : bool :=
  match it with EscZ _ => true | _ => false end.

Fixpoint wf_items_from (term : N) (after_z : bool) (items : list slitem) : bool :=
  match items with
  | [] => true
  | it :: r =>
    wf_item term it && negb (after_z && starts_ws it)
    && wf_items_from term (is_escz it) r
  end.

Definition wf_items (term : N) (items : list slitem) : bool :=
  wf_items_from term false items.
