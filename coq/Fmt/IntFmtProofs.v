(* Proofs about the integer printer of Fmt/Format.v: for every base 2..36 the
   printed digits denote the number and are canonical (no leading zero);
   never panics, never runs out of fuel; the sf mask truncates. *)
From FendV Require Import Base.Prelude Fmt.Rat Fmt.Format Fmt.Lex.
From Coq Require Import Lia ZifyBool.
Open Scope N_scope.

Arguments N.add : simpl never.
Arguments N.sub : simpl never.
Arguments N.mul : simpl never.
Arguments N.div : simpl never.
Arguments N.modulo : simpl never.
Arguments N.eqb : simpl never.
Arguments N.ltb : simpl never.
Arguments N.leb : simpl never.
Arguments N.pow : simpl never.
Arguments N.div_eucl : simpl never.

(* ------------------------------------------------------------------ *)
(* digit characters *)

(* the lower-case character of a digit value *)
Definition dchar (d : N) : N := if d <? 10 then 48 + d else 87 + d.

Lemma digit_as_char_dchar : forall d, d < 36 -> digit_as_char d = Some (dchar d).
Proof.
  intros d H. unfold digit_as_char, dchar.
  destruct (d <? 10) eqn:E; [reflexivity|].
  destruct (d <? 36) eqn:E2; [reflexivity|lia].
Qed.

Lemma dchar_zero_iff : forall d, d < 36 -> (dchar d = 48 <-> d = 0).
Proof. intros d H. unfold dchar. destruct (d <? 10) eqn:E; lia. Qed.

Lemma char_digit_value_dchar : forall d, d < 36 -> char_digit_value (dchar d) = Some d.
Proof.
  intros d H. unfold char_digit_value, dchar.
  destruct (d <? 10) eqn:E.
  - replace ((48 <=? 48 + d) && (48 + d <=? 57)) with true by lia. f_equal. lia.
  - replace ((48 <=? 87 + d) && (87 + d <=? 57)) with false by lia.
    replace ((97 <=? 87 + d) && (87 + d <=? 122)) with true by lia. f_equal. lia.
Qed.

Lemma to_digit_dchar : forall b d, d < b -> b <= 36 -> to_digit b (dchar d) = Some d.
Proof.
  intros b d H Hb. unfold to_digit. rewrite char_digit_value_dchar by lia.
  replace (d <? b) with true by lia. reflexivity.
Qed.

(* ------------------------------------------------------------------ *)
(* digit lists, most significant first *)

Lemma digits_val_acc : forall b ds a,
  fold_left (fun a d => a * b + d) ds a = a * b ^ N.of_nat (length ds) + digits_val b ds.
Proof.
  intros b ds. unfold digits_val. induction ds as [|d ds IH]; intros a; cbn [fold_left length].
  - rewrite N.pow_0_r. lia.
  - rewrite IH. rewrite (IH (0 * b + d)). rewrite Nat2N.inj_succ, N.pow_succ_r'. lia.
Qed.

Lemma digits_val_cons : forall b d ds,
  digits_val b (d :: ds) = d * b ^ N.of_nat (length ds) + digits_val b ds.
Proof.
  intros. unfold digits_val at 1. cbn [fold_left]. rewrite digits_val_acc. lia.
Qed.

Lemma digits_val_app : forall b xs ys,
  digits_val b (xs ++ ys) = digits_val b xs * b ^ N.of_nat (length ys) + digits_val b ys.
Proof.
  intros b xs ys. unfold digits_val. rewrite fold_left_app. rewrite digits_val_acc. reflexivity.
Qed.

Lemma digits_val_zeros : forall b k, digits_val b (repeat 0 k) = 0.
Proof.
  intros b k. induction k as [|k IH]; [reflexivity|].
  cbn [repeat]. rewrite digits_val_cons, IH. lia.
Qed.

Lemma digits_val_lt : forall b ds, Forall (fun d => d < b) ds ->
  digits_val b ds < b ^ N.of_nat (length ds).
Proof.
  intros b ds H. induction H as [|d ds Hd _ IH].
  - cbn. rewrite N.pow_0_r. unfold digits_val. cbn. lia.
  - rewrite digits_val_cons. cbn [length]. rewrite Nat2N.inj_succ, N.pow_succ_r'.
    remember (b ^ N.of_nat (length ds)) as P. nia.
Qed.

Lemma zeros_map : forall k, zeros k = map dchar (repeat 0 (N.to_nat k)).
Proof.
  intros k. unfold zeros. induction (N.to_nat k) as [|n IH]; [reflexivity|].
  cbn [repeat map]. rewrite IH. reflexivity.
Qed.

(* canonical digits of n in base b *)
Definition canon_ds (b n : N) (ds : list N) : Prop :=
  Forall (fun d => d < b) ds /\ digits_val b ds = n /\
  (n = 0 -> ds = [0]) /\ (n <> 0 -> hd 0 ds <> 0).

(* ------------------------------------------------------------------ *)
(* the grouped divisor: finite sweep over the 35 bases *)

Fixpoint Nseq (start : N) (n : nat) : list N :=
  match n with O => [] | S k => start :: Nseq (N.succ start) k end.

Lemma Nseq_In : forall n start x, start <= x -> x < start + N.of_nat n -> In x (Nseq start n).
Proof.
  induction n as [|n IH]; intros start x Hle Hlt.
  - lia.
  - cbn [Nseq]. destruct (N.eq_dec start x) as [->|Hne]; [now left|right].
    apply IH; lia.
Qed.

Definition group_ok (b : N) : bool :=
  let '(d, r) := group_params b in
  (d =? b ^ r) && (1 <=? r) && (d <=? U128MAX) && (U128MAX / b <=? d).

Lemma group_sweep : forallb group_ok (Nseq 2 35) = true.
Proof. vm_compute. reflexivity. Qed.

(* for every base 2..36 the divisor is base^rounds, fits in 128 bits (so the
   remainder of divmod fits the two limbs read back) and is maximal *)
Lemma group_params_spec : forall b, 2 <= b <= 36 ->
  exists d r, group_params b = (d, r) /\ d = b ^ r /\ 1 <= r /\ d <= U128MAX /\ U128MAX / b <= d.
Proof.
  intros b Hb.
  assert (Hin : In b (Nseq 2 35)) by (apply Nseq_In; lia).
  pose proof (proj1 (forallb_forall _ _) group_sweep b Hin) as H.
  unfold group_ok in H. destruct (group_params b) as [d r].
  exists d, r. split; [reflexivity|]. lia.
Qed.

(* ------------------------------------------------------------------ *)
(* the digit loop *)

Lemma div_eucl_spec : forall a b, N.div_eucl a b = (a / b, a mod b).
Proof. intros. unfold N.div, N.modulo. destruct (N.div_eucl a b). reflexivity. Qed.

(* buffer invariant: [ds] are the digit values of the buffer, most
   significant first; the buffer never starts with a zero; lz counts the
   zeros at its end *)
Definition bufinv (b : N) (st : ibuf) (ds : list N) : Prop :=
  ib_out st = map dchar ds /\ Forall (fun d => d < b) ds /\
  ((ib_fin st = false /\ ds = [] /\ ib_lz st = 0) \/
   (ib_fin st = true /\ hd 0 ds <> 0 /\
    exists hi lo, ds = hi ++ lo :: repeat 0 (N.to_nat (ib_lz st)) /\ lo <> 0)).

Definition bufk (st : ibuf) (ds : list N) : N := ib_tz st + N.of_nat (length ds).

Lemma push_digit_ok : forall b d st ds, b <= 36 -> d < b -> bufinv b st ds ->
  exists st' ds', push_digit d st = Ok st' /\ bufinv b st' ds' /\
    bufk st' ds' = bufk st ds + 1 /\
    digits_val b ds' = digits_val b ds + d * b ^ bufk st ds.
Proof.
  intros b d st ds Hb Hd (Hout & Hall & Hfin).
  unfold push_digit. rewrite digit_as_char_dchar by lia.
  destruct (dchar d =? 48) eqn:E.
  - apply N.eqb_eq in E. apply dchar_zero_iff in E; [|lia]. subst d.
    exists (mkib (ib_out st) (ib_tz st + 1) (ib_lz st) (ib_fin st)), ds.
    split; [reflexivity|]. split; [|split].
    + unfold bufinv. cbn [ib_out ib_fin ib_lz]. auto.
    + unfold bufk. cbn [ib_tz]. lia.
    + lia.
  - assert (Hd0 : d <> 0).
    { intro; subst d. unfold dchar in E. cbn in E. discriminate. }
    set (ds' := d :: repeat 0 (N.to_nat (ib_tz st)) ++ ds).
    eexists. exists ds'. split; [reflexivity|]. split; [|split].
    + unfold bufinv. cbn [ib_out ib_fin ib_lz]. split; [|split].
      * unfold ds'. cbn [map]. rewrite map_app, Hout, zeros_map. reflexivity.
      * unfold ds'. constructor; [lia|]. apply Forall_app. split; [|assumption].
        apply Forall_forall. intros x Hx. apply repeat_spec in Hx. lia.
      * right. split; [reflexivity|]. split; [unfold ds'; cbn; assumption|].
        destruct Hfin as [(Hf & Hnil & Hlz)|(Hf & Hhd & hi & lo & Hds & Hlo)].
        -- rewrite Hf. exists [], d. subst ds. unfold ds'. rewrite app_nil_r. cbn [app].
           rewrite Hlz, N.add_0_l. split; [reflexivity|assumption].
        -- rewrite Hf. exists (d :: repeat 0 (N.to_nat (ib_tz st)) ++ hi), lo.
           split; [|assumption]. unfold ds'. rewrite Hds. cbn [app]. rewrite <- app_assoc. reflexivity.
    + unfold bufk, ds'. cbn [ib_tz length]. rewrite app_length, repeat_length. lia.
    + unfold ds'. rewrite digits_val_cons, digits_val_app, digits_val_zeros.
      unfold bufk. rewrite app_length, repeat_length.
      replace (N.of_nat (N.to_nat (ib_tz st) + length ds)) with (ib_tz st + N.of_nat (length ds)) by lia.
      lia.
Qed.

Lemma group_digits_ok : forall b r g st ds, 2 <= b <= 36 -> bufinv b st ds ->
  exists st' ds', group_digits r b g st = Ok st' /\ bufinv b st' ds' /\
    bufk st' ds' = bufk st ds + N.of_nat r /\
    digits_val b ds' = digits_val b ds + (g mod b ^ N.of_nat r) * b ^ bufk st ds.
Proof.
  intros b r. induction r as [|r IH]; intros g st ds Hb Hinv.
  - exists st, ds. split; [reflexivity|]. split; [assumption|]. split; [cbn; lia|].
    cbn. rewrite N.pow_0_r, N.mod_1_r. lia.
  - cbn [group_digits]. rewrite div_eucl_spec.
    assert (Hd : g mod b < b) by (apply N.mod_lt; lia).
    destruct (push_digit_ok b (g mod b) st ds) as (st1 & ds1 & Hp & Hinv1 & Hk1 & Hv1); [lia|assumption|assumption|].
    rewrite Hp. cbn [bind].
    destruct (IH (g / b) st1 ds1 Hb Hinv1) as (st2 & ds2 & Hg & Hinv2 & Hk2 & Hv2).
    exists st2, ds2. split; [assumption|]. split; [assumption|]. split; [lia|].
    rewrite Hv2, Hv1, Hk1. rewrite Nat2N.inj_succ, N.pow_succ_r'.
    rewrite N.mod_mul_r by (try apply N.pow_nonzero; lia).
    rewrite N.pow_add_r, N.pow_1_r. lia.
Qed.

Lemma size_ge_1 : forall n, n <> 0 -> 1 <= N.size n.
Proof. intros n Hn. rewrite N.size_log2 by assumption. lia. Qed.

Lemma size_div_lt : forall n d, n <> 0 -> 2 <= d -> N.size (n / d) < N.size n.
Proof.
  intros n d Hn Hd.
  pose proof (size_ge_1 n Hn) as Hs1.
  assert (Hq : n / d <= n / 2) by (apply N.div_le_compat_l; lia).
  assert (H2 : n / 2 < 2 ^ (N.size n - 1)).
  { pose proof (N.size_gt n) as Hs.
    apply N.div_lt_upper_bound; [lia|].
    replace (2 * 2 ^ (N.size n - 1)) with (2 ^ N.size n); [assumption|].
    rewrite <- N.pow_succ_r'. f_equal. lia. }
  remember (n / d) as m eqn:Hm. remember (n / 2) as h eqn:Hh. clear Hm Hh.
  remember (2 ^ (N.size n - 1)) as P eqn:HP.
  destruct (N.eq_dec m 0) as [Hz|Hnz].
  - rewrite Hz. change (N.size 0) with 0. lia.
  - rewrite (N.size_log2 m) by assumption.
    assert (N.log2 m < N.size n - 1) by (apply N.log2_lt_pow2; [lia|rewrite <- HP; lia]).
    lia.
Qed.

Lemma int_loop_ok : forall b dv r fuel num st ds n,
  2 <= b <= 36 -> dv = b ^ N.of_nat r -> (1 <= r)%nat ->
  (N.to_nat (N.size num) < fuel)%nat ->
  bufinv b st ds -> n = num * b ^ bufk st ds + digits_val b ds ->
  exists st' ds', int_loop fuel b dv r num st = Ok st' /\ bufinv b st' ds' /\
    digits_val b ds' = n.
Proof.
  intros b dv r fuel. induction fuel as [|fuel IH]; intros num st ds n Hb Hdv Hr Hfuel Hinv Hn.
  - lia.
  - cbn [int_loop]. destruct (num =? 0) eqn:E.
    + apply N.eqb_eq in E. subst num. exists st, ds. split; [reflexivity|]. split; [assumption|]. lia.
    + apply N.eqb_neq in E. rewrite div_eucl_spec.
      destruct (group_digits_ok b r (num mod dv) st ds Hb Hinv) as (st1 & ds1 & Hg & Hinv1 & Hk1 & Hv1).
      rewrite Hg. cbn [bind].
      assert (Hdv2 : 2 <= dv).
      { subst dv. destruct r as [|r]; [lia|]. rewrite Nat2N.inj_succ, N.pow_succ_r'.
        assert (1 <= b ^ N.of_nat r) by (apply N.lt_pred_le; cbn; apply N.neq_0_lt_0, N.pow_nonzero; lia). nia. }
      apply (IH (num / dv) st1 ds1 n); try assumption.
      * pose proof (size_div_lt num dv E Hdv2). lia.
      * rewrite Hv1, Hk1. rewrite <- Hdv.
        rewrite (N.mod_small (num mod dv) dv) by (apply N.mod_lt; lia).
        rewrite N.pow_add_r. rewrite <- Hdv.
        pose proof (N.div_mod' num dv). nia.
Qed.

Lemma bufinv_init : forall b, bufinv b (mkib [] 0 0 false) [].
Proof. intros. unfold bufinv. cbn. split; [reflexivity|]. split; [constructor|]. left. auto. Qed.

(* decimal Display of a machine integer *)
Lemma dec_digits_fuel_spec : forall fuel n acc,
  (N.to_nat (N.size n) < fuel)%nat \/ (n = 0 /\ (0 < fuel)%nat) ->
  exists ds, dec_digits_fuel fuel n acc = map dchar ds ++ acc /\ canon_ds 10 n ds.
Proof.
  induction fuel as [|fuel IH]; intros n acc Hf; [lia|].
  cbn [dec_digits_fuel]. destruct (n <? 10) eqn:E.
  - exists [n]. split.
    + cbn [map app]. unfold dchar. rewrite E. reflexivity.
    + unfold canon_ds. split; [constructor; [lia|constructor]|]. split; [unfold digits_val; cbn; lia|].
      split; [intros ->; reflexivity|cbn; auto].
  - assert (Hn : n <> 0) by lia.
    destruct (IH (n / 10) ((48 + n mod 10) :: acc)) as (ds & Hds & Hc).
    { left. pose proof (size_div_lt n 10 Hn). lia. }
    exists (ds ++ [n mod 10]). split.
    + rewrite Hds. rewrite map_app. rewrite <- app_assoc. cbn [map app].
      assert (n mod 10 < 10) by (apply N.mod_lt; lia).
      assert (Hdc : dchar (n mod 10) = 48 + n mod 10).
      { unfold dchar. replace (n mod 10 <? 10) with true by lia. reflexivity. }
      rewrite Hdc. reflexivity.
    + destruct Hc as (Hall & Hv & Hz & Hnz).
      assert (n mod 10 < 10) by (apply N.mod_lt; lia).
      assert (Hq : n / 10 <> 0).
      { intro Hq. apply N.div_small_iff in Hq; lia. }
      split; [|split; [|split]].
      * apply Forall_app. split; [assumption|]. constructor; [assumption|constructor].
      * rewrite digits_val_app, Hv. cbn [length]. unfold digits_val at 1. cbn [fold_left].
        pose proof (N.div_mod' n 10). cbn. lia.
      * intros; lia.
      * intros _. specialize (Hnz Hq). destruct ds; [cbn in Hnz; lia|]. cbn in *. assumption.
Qed.

Lemma dec_display_spec : forall n, exists ds, dec_display n = map dchar ds /\ canon_ds 10 n ds.
Proof.
  intros n. unfold dec_display.
  destruct (dec_digits_fuel_spec (S (N.to_nat (N.size n))) n []) as (ds & H & Hc); [lia|].
  exists ds. rewrite app_nil_r in H. auto.
Qed.

(* ------------------------------------------------------------------ *)
(* the printer without significant-figure limit: text = prefix ++ canonical digits *)

Definition fbu_prefix (f : fbu) : list N :=
  match fbu_base f with Some k => prefix_text k | None => [] end.

Lemma format_biguint_nosf : forall base wp n, 2 <= base_val base <= 36 ->
  exists f ds, format_biguint base wp None n = Ok (f, true) /\
    fbu_text f = (if wp then prefix_text base else []) ++ map dchar ds /\
    canon_ds (base_val base) n ds /\
    fbu_num_digits f = N.of_nat (length ds).
Proof.
  intros base wp n Hb. unfold format_biguint.
  destruct (n =? 0) eqn:E0.
  - apply N.eqb_eq in E0. subst n. eexists. exists [0]. split; [reflexivity|].
    split; [unfold fbu_text; cbn [fbu_base fbu_ty]; destruct wp; reflexivity|].
    split; [|reflexivity].
    unfold canon_ds. split; [constructor; [lia|constructor]|]. split; [reflexivity|]. split; [reflexivity|intros; lia].
  - apply N.eqb_neq in E0.
    destruct ((n <? U64) && (base_val base =? 10) && true) eqn:ES.
    + assert (Hb10 : base_val base = 10) by lia.
      destruct (dec_display_spec n) as (ds & Hd & Hc).
      eexists. exists ds. split; [reflexivity|].
      split; [unfold fbu_text; cbn [fbu_base fbu_ty]; rewrite Hd; destruct wp; reflexivity|].
      split; [rewrite Hb10; assumption|].
      unfold fbu_num_digits. cbn [fbu_ty]. rewrite Hd, map_length.
      destruct (n <=? 9) eqn:E9; [|reflexivity].
      destruct Hc as (Hall & Hv & _ & Hnz).
      destruct ds as [|d [|d2 ds]]; [unfold digits_val in Hv; cbn in Hv; lia|reflexivity|].
      exfalso. specialize (Hnz E0). cbn in Hnz.
      rewrite digits_val_cons in Hv. cbn [length] in Hv. rewrite Nat2N.inj_succ, N.pow_succ_r' in Hv.
      assert (1 <= 10 ^ N.of_nat (length ds)) by (apply N.lt_pred_le; cbn; apply N.neq_0_lt_0, N.pow_nonzero; lia).
      nia.
    + replace ((base_val base <? 2) || (36 <? base_val base)) with false by lia.
      destruct (group_params_spec (base_val base) Hb) as (d & r & Hg & Hd & Hr & _).
      rewrite Hg.
      destruct (int_loop_ok (base_val base) d (N.to_nat r) (S (N.to_nat (N.size n))) n (mkib [] 0 0 false) [] n)
        as (st & ds & Hl & Hinv & Hv);
        [lia|rewrite N2Nat.id; assumption|lia|lia|apply bufinv_init| |].
      { unfold bufk. cbn. unfold digits_val. cbn. rewrite N.pow_0_r. lia. }
      rewrite Hl. cbn [bind].
      destruct Hinv as (Hout & Hall & Hfin).
      assert (Hlz : ib_lz st <= N.of_nat (length ds)).
      { destruct Hfin as [(_ & _ & ->)|(_ & _ & hi & lo & Hds & _)]; [lia|].
        rewrite Hds, app_length. cbn [length]. rewrite repeat_length. lia. }
      rewrite Hout, map_length.
      replace (N.of_nat (length ds) <? ib_lz st) with false by lia.
      eexists. exists ds. split; [reflexivity|].
      split; [unfold fbu_text; cbn [fbu_base fbu_ty]; destruct wp; reflexivity|].
      split; [|unfold fbu_num_digits; cbn [fbu_ty]; rewrite map_length; reflexivity].
      unfold canon_ds. split; [assumption|]. split; [assumption|]. split; [intros; lia|].
      intros _. destruct Hfin as [(_ & -> & _)|(_ & Hhd & _)]; [|assumption].
      unfold digits_val in Hv. cbn in Hv. lia.
Qed.

(* one digit below the base prints as its single character *)
Lemma canon_single : forall b d ds, 2 <= b -> d < b -> canon_ds b d ds -> ds = [d].
Proof.
  intros b d ds Hb Hd (Hall & Hv & Hz & Hnz).
  destruct (N.eq_dec d 0) as [->|Hne]; [auto|].
  specialize (Hnz Hne).
  destruct ds as [|x [|y ds]].
  - unfold digits_val in Hv. cbn in Hv. lia.
  - unfold digits_val in Hv. cbn in Hv. f_equal. lia.
  - exfalso. cbn in Hnz. rewrite digits_val_cons in Hv. cbn [length] in Hv.
    rewrite Nat2N.inj_succ, N.pow_succ_r' in Hv.
    assert (HP : 1 <= b ^ N.of_nat (length ds)) by (apply N.lt_pred_le; cbn; apply N.neq_0_lt_0, N.pow_nonzero; lia).
    remember (b ^ N.of_nat (length ds)) as P. remember (digits_val b (y :: ds)) as t.
    assert (b <= b * P) by nia. remember (b * P) as Q.
    assert (Q <= x * Q) by nia. lia.
Qed.

Lemma digit_text_single : forall base d, 2 <= base_val base <= 36 -> d < base_val base ->
  digit_text base d = Ok [dchar d].
Proof.
  intros base d Hb Hd. unfold digit_text.
  destruct (format_biguint_nosf base false d Hb) as (f & ds & Hf & Ht & Hc & _).
  rewrite Hf. cbn [bind fst]. rewrite Ht. cbn [app].
  rewrite (canon_single _ _ _ (proj1 Hb) Hd Hc). reflexivity.
Qed.

(* ------------------------------------------------------------------ *)
(* the printer with a significant-figure limit: digits beyond the limit are
   shown as zeros; flagged exact iff that changes nothing *)

Definition mask_ds (sf : N) (ds : list N) : list N :=
  firstn (N.to_nat sf) ds ++ repeat 0 (length ds - N.to_nat sf).

Lemma dchar_0 : dchar 0 = 48.
Proof. reflexivity. Qed.

Lemma sf_mask_all_zero : forall ds i sf, sf <= i ->
  sf_mask i sf (map dchar ds) = map dchar (repeat 0 (length ds)).
Proof.
  induction ds as [|x ds IH]; intros i sf Hi; [reflexivity|].
  cbn [map sf_mask length repeat]. replace (sf <=? i) with true by lia. rewrite dchar_0. f_equal.
  apply IH. lia.
Qed.

Lemma skipn_In' : forall (A : Type) n (l : list A) x, In x (skipn n l) -> In x l.
Proof.
  intros A n. induction n as [|n IH]; intros l x H; [assumption|].
  destruct l as [|a l]; [assumption|]. right. apply IH. assumption.
Qed.

Lemma firstn_In' : forall (A : Type) n (l : list A) x, In x (firstn n l) -> In x l.
Proof.
  intros A n. induction n as [|n IH]; intros l x H; [destruct H|].
  destruct l as [|a l]; [destruct H|]. cbn [firstn] in H. destruct H as [->|H]; [left; reflexivity|right; apply IH; assumption].
Qed.

Lemma sf_mask_spec : forall ds i sf, i <= sf ->
  sf_mask i sf (map dchar ds) = map dchar (mask_ds (sf - i) ds).
Proof.
  induction ds as [|d ds IH]; intros i sf Hi; [unfold mask_ds; rewrite firstn_nil; reflexivity|].
  cbn [map sf_mask]. unfold mask_ds. destruct (sf <=? i) eqn:E.
  - assert (sf = i) by lia. subst i. replace (sf - sf) with 0 by lia. cbn [N.to_nat firstn app].
    rewrite Nat.sub_0_r. cbn [length repeat map]. rewrite dchar_0. f_equal.
    apply sf_mask_all_zero. lia.
  - assert (Hlt : i < sf) by lia.
    rewrite IH by lia. unfold mask_ds.
    replace (N.to_nat (sf - i)) with (S (N.to_nat (sf - (i + 1)))) by lia.
    cbn [firstn length app map]. rewrite Nat.sub_succ. reflexivity.
Qed.

Lemma mask_ds_length : forall sf ds, length (mask_ds sf ds) = length ds.
Proof.
  intros sf ds. unfold mask_ds. rewrite app_length, repeat_length, firstn_length. lia.
Qed.

Lemma mask_ds_all : forall b sf ds, 1 <= b -> Forall (fun d => d < b) ds -> Forall (fun d => d < b) (mask_ds sf ds).
Proof.
  intros b sf ds Hb H. unfold mask_ds. apply Forall_app. split.
  - rewrite Forall_forall in *. intros x Hx. apply H. eapply firstn_In'. eassumption.
  - apply Forall_forall. intros x Hx. apply repeat_spec in Hx. lia.
Qed.

(* value of the masked digits: the number truncated to sf leading digits *)
Lemma mask_ds_value : forall b sf ds, 1 <= b -> Forall (fun d => d < b) ds ->
  digits_val b (mask_ds sf ds) =
  digits_val b ds / b ^ N.of_nat (length ds - N.to_nat sf) * b ^ N.of_nat (length ds - N.to_nat sf).
Proof.
  intros b sf ds Hb Hall. unfold mask_ds.
  set (k := N.to_nat sf).
  rewrite digits_val_app, digits_val_zeros, repeat_length, N.add_0_r.
  assert (Hlen : length (skipn k ds) = (length ds - k)%nat) by apply skipn_length.
  assert (Hsplit : digits_val b ds = digits_val b (firstn k ds) * b ^ N.of_nat (length ds - k)
                                     + digits_val b (skipn k ds)).
  { rewrite <- Hlen, <- digits_val_app, firstn_skipn. reflexivity. }
  rewrite Hsplit.
  assert (Hlt : digits_val b (skipn k ds) < b ^ N.of_nat (length ds - k)).
  { rewrite <- Hlen. apply digits_val_lt. rewrite Forall_forall in *. intros x Hx. apply Hall.
    eapply skipn_In'. eassumption. }
  rewrite N.div_add_l by (apply N.pow_nonzero; lia).
  rewrite (N.div_small _ _ Hlt). lia.
Qed.


Lemma firstn_repeat : forall (A : Type) (a : A) j n, (j <= n)%nat -> firstn j (repeat a n) = repeat a j.
Proof.
  intros A a j. induction j as [|j IH]; intros n H; [reflexivity|].
  destruct n as [|n]; [lia|]. cbn [repeat firstn]. f_equal. apply IH. lia.
Qed.

Lemma mask_exact_iff : forall sf hi lo lz, lo <> 0 ->
  let ds := hi ++ lo :: repeat 0 lz in
  (N.of_nat (length ds) - N.of_nat lz <= sf <-> mask_ds sf ds = ds).
Proof.
  intros sf hi lo lz Hlo ds.
  assert (Hlen : length ds = (length hi + 1 + lz)%nat).
  { unfold ds. rewrite app_length. cbn [length]. rewrite repeat_length. lia. }
  split.
  - intros H. unfold mask_ds.
    assert (Hk : (length hi + 1 <= N.to_nat sf)%nat) by lia.
    remember (N.to_nat sf) as k eqn:Ek. clear Ek H.
    destruct (Nat.le_gt_cases (length ds) k) as [Hge|Hlt].
    + rewrite firstn_all2 by assumption. replace (length ds - k)%nat with O by lia. apply app_nil_r.
    + rewrite Hlen. unfold ds. rewrite firstn_app. rewrite (firstn_all2 hi) by lia.
      replace (k - length hi)%nat with (S (k - length hi - 1)) by lia.
      cbn [firstn]. rewrite firstn_repeat by lia.
      rewrite <- app_assoc. cbn [app]. f_equal. f_equal.
      rewrite <- repeat_app. f_equal. lia.
  - intros H. destruct (N.le_gt_cases (N.of_nat (length ds) - N.of_nat lz) sf) as [Hle|Hgt]; [assumption|].
    exfalso. assert (Hk : (N.to_nat sf <= length hi)%nat) by lia.
    assert (Hn : nth (length hi) (mask_ds sf ds) 0 = lo).
    { rewrite H. unfold ds. rewrite app_nth2 by lia. rewrite Nat.sub_diag. reflexivity. }
    unfold mask_ds in Hn. rewrite app_nth2 in Hn by (rewrite firstn_length; lia).
    rewrite nth_repeat in Hn. congruence.
Qed.

(* the printer with any sf limit *)
Lemma format_biguint_gen : forall base wp sfl n, 2 <= base_val base <= 36 ->
  exists f ds ex, format_biguint base wp sfl n = Ok (f, ex) /\
    canon_ds (base_val base) n ds /\
    fbu_num_digits f = N.of_nat (length ds) /\
    fbu_text f = (if wp then prefix_text base else []) ++
                 map dchar (match sfl with Some sf => mask_ds sf ds | None => ds end) /\
    (ex = true <-> match sfl with Some sf => mask_ds sf ds = ds | None => True end).
Proof.
  intros base wp sfl n Hb. destruct sfl as [sf|].
  2:{ destruct (format_biguint_nosf base wp n Hb) as (f & ds & Hf & Ht & Hc & Hn).
      exists f, ds, true. split; [assumption|]. split; [assumption|]. split; [assumption|].
      split; [assumption|]. split; auto. }
  unfold format_biguint.
  destruct (n =? 0) eqn:E0.
  - apply N.eqb_eq in E0. subst n. eexists. exists [0], true. split; [reflexivity|].
    assert (Hm : mask_ds sf [0] = [0]).
    { unfold mask_ds. destruct (N.to_nat sf) as [|k]; [reflexivity|]. cbn [firstn length Nat.sub]. destruct k; reflexivity. }
    split; [unfold canon_ds; split; [constructor; [lia|constructor]|]; split; [reflexivity|]; split; [reflexivity|intros; lia]|].
    split; [reflexivity|]. split; [unfold fbu_text; cbn [fbu_base fbu_ty]; rewrite Hm; destruct wp; reflexivity|].
    split; auto.
  - apply N.eqb_neq in E0. rewrite andb_false_r.
    replace ((base_val base <? 2) || (36 <? base_val base)) with false by lia.
    destruct (group_params_spec (base_val base) Hb) as (d & r & Hg & Hd & Hr & _).
    rewrite Hg.
    destruct (int_loop_ok (base_val base) d (N.to_nat r) (S (N.to_nat (N.size n))) n (mkib [] 0 0 false) [] n)
      as (st & ds & Hl & Hinv & Hv);
      [lia|rewrite N2Nat.id; assumption|lia|lia|apply bufinv_init| |].
    { unfold bufk. cbn. unfold digits_val. cbn. rewrite N.pow_0_r. lia. }
    rewrite Hl. cbn [bind].
    destruct Hinv as (Hout & Hall & Hfin).
    assert (Hds : exists hi lo, ds = hi ++ lo :: repeat 0 (N.to_nat (ib_lz st)) /\ lo <> 0 /\ hd 0 ds <> 0).
    { destruct Hfin as [(_ & -> & _)|(_ & Hhd & hi & lo & Hds & Hlo)].
      - unfold digits_val in Hv. cbn in Hv. lia.
      - exists hi, lo. auto. }
    destruct Hds as (hi & lo & Hds & Hlo & Hhd).
    assert (Hlz : ib_lz st <= N.of_nat (length ds)).
    { rewrite Hds, app_length. cbn [length]. rewrite repeat_length. lia. }
    rewrite Hout, map_length.
    replace (N.of_nat (length ds) <? ib_lz st) with false by lia.
    eexists. exists ds. eexists. split; [reflexivity|].
    split; [unfold canon_ds; split; [assumption|]; split; [assumption|]; split; [intros; lia|intros; assumption]|].
    split; [unfold fbu_num_digits; cbn [fbu_ty]; rewrite map_length; reflexivity|].
    split.
    + unfold fbu_text. cbn [fbu_base fbu_ty]. rewrite (sf_mask_spec ds 0 sf) by lia.
      rewrite N.sub_0_r. destruct wp; reflexivity.
    + pose proof (mask_exact_iff sf hi lo (N.to_nat (ib_lz st)) Hlo) as Hm. cbn zeta in Hm.
      rewrite <- Hds in Hm. rewrite N2Nat.id in Hm. rewrite <- Hm.
      split; intros H; lia.
Qed.
