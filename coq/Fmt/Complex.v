(* Model of the formatting of a complex value with the imaginary suffix:
   BigRat::format with a non-empty `term` ("i"; core/src/num/bigrat.rs
   format_as_integer / format_as_fraction / FormattedBigRat Display),
   Real::format for a rational (Simple) pattern, where a value that stands in
   for a multiple of pi is formatted from its approximation with the exact
   flag overridden ([override]), Complex::format (both parts, " + " / " - ",
   Auto -> Exact when the imaginary part is non-zero) and the Value::format
   wrapper, for unitless values.  Model file: executable definitions only. *)
From FendV Require Import Base.Prelude Fmt.Rat Fmt.Format.
Open Scope N_scope.

Definition is_nil {A} (l : list A) : bool := match l with [] => true | _ => false end.

(* format_as_integer with a term *)
Definition format_as_integer_t (term : list N) (num : N) (base : basek) (neg : bool)
  (sf_limit : option N) : res (list N * bool) :=
  if negb (is_nil term) && negb (has_prefix base) && (num =? 1) then
    Ok (sign_text neg ++ term, true)                       (* "i", "-i" *)
  else
    do f <- format_biguint base true sf_limit num;
    Ok (sign_text neg ++ fbu_text (fst f) ++
        (if negb (is_nil term) && (10 <? base_val base) then [32] else []) ++ term, snd f).

(* format_as_fraction with a term *)
Definition format_as_fraction_t (term : list N) (x : rat) (base : basek) (neg : bool) (mixed : bool)
  : res (list N * bool) :=
  do fden <- format_biguint base true None (rden x);
  do pn <- (if mixed then
              if rden x =? 0 then Err EDivByZero else
              let prefix := rnum x / rden x in
              let num := rnum x mod rden x in
              if prefix =? 0 then Ok (None, num, true)
              else do fp <- format_biguint base true None prefix;
                   Ok (Some (fst fp), num, snd fp)
            else Ok (None, rnum x, true));
  let '(pref, num, prefix_exact) := pn in
  let actually_mixed := match pref with Some _ => true | None => false end in
  if negb (is_nil term) && negb actually_mixed && negb (has_prefix base) && (num =? 1) then
    Ok (sign_text neg ++ term ++ [47] ++ fbu_text (fst fden), snd fden && prefix_exact && true)
  else
    do fnum <- format_biguint base true None num;
    let space := negb (is_nil term) && ((19 <=? base_val base) || actually_mixed) in
    let sp := if space then [32] else [] in
    Ok (sign_text neg ++
        (match pref with Some p => fbu_text p ++ [32] | None => [] end) ++
        fbu_text (fst fnum) ++
        (if actually_mixed then [] else sp ++ term) ++
        [47] ++ fbu_text (fst fden) ++
        (if actually_mixed then sp ++ term else []),
        snd fden && prefix_exact && snd fnum).

(* format_as_decimal: FormattedBigRatType::Decimal(s, space, term) *)
Definition format_as_decimal_t (term : list N) (fuel : nat) (x : rat) (st : style) (base : basek)
  (neg : bool) (terminating : res bool) (sep : sepstyle) : res (list N * bool) :=
  do r <- format_as_decimal fuel x st base neg terminating sep;
  Ok (fst r ++ (if negb (is_nil term) && (10 <? base_val base) then [32] else []) ++ term, snd r).

Definition bigrat_format_t (term : list N) (fuel : nat) (st : style) (base : basek) (sep : sepstyle)
  (x0 : rat) : res (list N * bool) :=
  do x <- simplify x0;
  let neg := rneg x && negb (rnum x =? 0) in
  if rden x =? 1 then
    format_as_integer_t term (rnum x) base neg (match st with SSf sf => Some sf | _ => None end)
  else
    let terminating := terminates_in_base (base_val base) x in
    do fraction <- match st with
                   | SFraction | SMixed => Ok true
                   | SExact => do t <- terminating; Ok (negb t)
                   | _ => Ok false
                   end;
    if fraction then
      format_as_fraction_t term x base neg (match st with SMixed | SExact => true | _ => false end)
    else format_as_decimal_t term fuel x st base neg terminating sep.

(* Real::format of a part: [override] = the part is a multiple of pi shown
   through its rational approximation (never exact) *)
Definition real_format (fuel : nat) (st : style) (base : basek) (sep : sepstyle) (imag : bool)
  (override : bool) (x : rat) : res (list N * bool) :=
  do r <- bigrat_format_t (if imag then [105] else []) fuel st base sep x;
  Ok (fst r, snd r && negb override).

Definition rat_is_zero (x : rat) : bool := rnum x =? 0.
Definition rat_neg (x : rat) : rat := mkrat (negb (rneg x)) (rnum x) (rden x).

(* Value::format o Complex::format *)
Definition complex_format (fuel : nat) (vexact : bool) (st : style) (base : basek) (sep : sepstyle)
  (re : rat) (re_ov : bool) (im : rat) (im_ov : bool) : res (list N * bool) :=
  let st0 := if negb vexact && style_eqb st SAuto then SDp 10 else st in
  let st1 := if negb (rat_is_zero im) && style_eqb st0 SAuto then SExact else st0 in
  if rat_is_zero im then
    do x <- real_format fuel st1 base sep false re_ov re; Ok (fst x, vexact && snd x)
  else if rat_is_zero re then
    do x <- real_format fuel st1 base sep true im_ov im; Ok (fst x, vexact && snd x)
  else
    do rp <- real_format fuel st1 base sep false re_ov re;
    let positive := negb (rneg im) in
    do ip <- real_format fuel st1 base sep true im_ov (if positive then im else rat_neg im);
    Ok (fst rp ++ (if positive then [32; 43; 32] else [32; 45; 32]) ++ fst ip,
        vexact && snd rp && snd ip).
