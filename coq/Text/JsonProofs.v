(* Proofs about Text/Json.v: escape never panics on scalars, the escaper's
   output decodes (RFC 8259 decoder) to the original text, is printable
   ASCII, and the inline-substitution scanner preserves text. *)
From FendV Require Import Base.Prelude Text.Json.
From Coq Require Import Lia ZifyBool.
Open Scope N_scope.

Arguments N.add : simpl never.
Arguments N.sub : simpl never.
Arguments N.mul : simpl never.
Arguments N.div : simpl never.
Arguments N.modulo : simpl never.
Arguments N.eqb : simpl never.
Arguments N.ltb : simpl never.
Arguments N.leb : simpl never.

(* ---------------- finite sweep over the 16-bit code units ---------------- *)

Fixpoint Nseq (start : N) (n : nat) : list N :=
  match n with O => [] | S k => start :: Nseq (N.succ start) k end.

Lemma Nseq_In : forall n start x, start <= x -> x < start + N.of_nat n -> In x (Nseq start n).
Proof.
  induction n as [|n IH]; intros start x Hle Hlt.
  - lia.
  - cbn [Nseq]. destruct (N.eq_dec start x) as [->|Hne]; [now left|right].
    apply IH; lia.
Qed.

Definition unit_ok (u : N) : bool :=
  match esc_unit u with
  | Ok (x :: y :: a :: b :: c :: d :: nil) =>
    (x =? 92) && (y =? 117) &&
    match hex4v a b c d with Some v => v =? u | None => false end &&
    forallb (fun k => (32 <=? k) && (k <=? 126) && negb (k =? 34) && negb (k =? 92)) [a; b; c; d]
  | _ => false
  end.

Lemma unit_sweep : forallb unit_ok (Nseq 0 (N.to_nat 65536)) = true.
Proof. vm_compute. reflexivity. Qed.

Definition plain (k : N) : Prop := 32 <= k <= 126 /\ k <> 34 /\ k <> 92.

Lemma esc_unit_spec : forall u, u < 65536 ->
  exists a b c d, esc_unit u = Ok [92; 117; a; b; c; d] /\ hex4v a b c d = Some u
                  /\ plain a /\ plain b /\ plain c /\ plain d.
Proof.
  intros u Hu.
  assert (Hin : In u (Nseq 0 (N.to_nat 65536))) by (apply Nseq_In; lia).
  pose proof (proj1 (forallb_forall _ _) unit_sweep u Hin) as H.
  unfold unit_ok in H.
  destruct (esc_unit u) as [[|x [|y [|a [|b [|c [|d [|? ?]]]]]]]| |]; try discriminate.
  apply andb_prop in H as [H Hp]. apply andb_prop in H as [H Hv].
  apply andb_prop in H as [Hx Hy].
  apply N.eqb_eq in Hx, Hy. subst x y.
  destruct (hex4v a b c d) as [v|] eqn:Hh; [|discriminate].
  apply N.eqb_eq in Hv. subst v.
  cbn [forallb] in Hp.
  unfold plain.
  exists a, b, c, d. repeat split; try reflexivity; try assumption; lia.
Qed.

(* ---------------- escape never panics on scalars ---------------- *)

Lemma is_scalar_bound c : is_scalar c = true -> c < 1114112 /\ (c < 55296 \/ 57344 <= c).
Proof. unfold is_scalar. lia. Qed.

Lemma utf16_units c : is_scalar c = true ->
  (c < 65536 /\ utf16 c = [c] /\ is_high c = false /\ is_low c = false) \/
  (65536 <= c /\ exists h l, utf16 c = [h; l] /\ h < 65536 /\ l < 65536 /\
     is_high h = true /\ is_low l = true /\
     65536 + (h - 55296) * 1024 + (l - 56320) = c).
Proof.
  intros Hs. apply is_scalar_bound in Hs as [Hb Hr].
  unfold utf16. destruct (c <? 65536) eqn:Hc.
  - left. unfold is_high, is_low. repeat split; lia.
  - right. split; [lia|].
    eexists _, _. split; [reflexivity|].
    assert (Hq : (c - 65536) / 1024 < 1024) by (apply N.div_lt_upper_bound; lia).
    assert (Hm : (c - 65536) mod 1024 < 1024) by (apply N.mod_lt; lia).
    pose proof (N.div_mod (c - 65536) 1024 ltac:(lia)) as Hdm.
    unfold is_high, is_low.
    generalize dependent ((c - 65536) / 1024). generalize dependent ((c - 65536) mod 1024).
    intros m Hm q Hq Hdm. repeat split; lia.
Qed.

(* One escaped character, as seen by the decoder. *)
Definition escaped_as (c : N) (o : list N) : Prop :=
  (exists x, o = [92; x] /\ simple_escape x = Some c /\ x <> 117) \/
  (o = [c] /\ 32 <= c <= 126 /\ c <> 34 /\ c <> 92) \/
  (exists a b cc d, o = [92; 117; a; b; cc; d] /\ hex4v a b cc d = Some c /\
     is_high c = false /\ is_low c = false) \/
  (exists a b cc d a2 b2 c2 d2 h l,
     o = [92; 117; a; b; cc; d; 92; 117; a2; b2; c2; d2] /\
     hex4v a b cc d = Some h /\ hex4v a2 b2 c2 d2 = Some l /\
     is_high h = true /\ is_low l = true /\
     65536 + (h - 55296) * 1024 + (l - 56320) = c).

Lemma escape_char_spec c : is_scalar c = true ->
  exists o, escape_char c = Ok o /\ escaped_as c o /\ Forall (fun k => 32 <= k <= 126) o.
Proof.
  intros Hs. unfold escape_char.
  destruct (c =? 92) eqn:E1.
  { apply N.eqb_eq in E1; subst. eexists; split; [reflexivity|]. split.
    - left. exists 92. repeat split; try reflexivity; lia.
    - repeat constructor; lia. }
  destruct (c =? 34) eqn:E2.
  { apply N.eqb_eq in E2; subst. eexists; split; [reflexivity|]. split.
    - left. exists 34. repeat split; try reflexivity; lia.
    - repeat constructor; lia. }
  destruct (c =? 10) eqn:E3.
  { apply N.eqb_eq in E3; subst. eexists; split; [reflexivity|]. split.
    - left. exists 110. repeat split; try reflexivity; lia.
    - repeat constructor; lia. }
  destruct (c =? 13) eqn:E4.
  { apply N.eqb_eq in E4; subst. eexists; split; [reflexivity|]. split.
    - left. exists 114. repeat split; try reflexivity; lia.
    - repeat constructor; lia. }
  destruct (c =? 9) eqn:E5.
  { apply N.eqb_eq in E5; subst. eexists; split; [reflexivity|]. split.
    - left. exists 116. repeat split; try reflexivity; lia.
    - repeat constructor; lia. }
  destruct ((32 <=? c) && (c <=? 126)) eqn:E6.
  { eexists; split; [reflexivity|]. split.
    - right; left. repeat split; lia.
    - repeat constructor; lia. }
  destruct (utf16_units c Hs) as [(Hlt & Hu & Hh & Hl) | (Hge & h & l & Hu & Hh & Hl & Hih & Hil & Hc)].
  - rewrite Hu. cbn [esc_units].
    destruct (esc_unit_spec c Hlt) as (a & b & cc & d & He & Hv & Pa & Pb & Pc & Pd).
    rewrite He. cbn [bind app]. eexists; split; [reflexivity|]. split.
    + right; right; left. exists a, b, cc, d. repeat split; assumption.
    + unfold plain in *. repeat constructor; lia.
  - rewrite Hu. cbn [esc_units].
    destruct (esc_unit_spec h Hh) as (a & b & cc & d & He & Hv & Pa & Pb & Pc & Pd).
    destruct (esc_unit_spec l Hl) as (a2 & b2 & c2 & d2 & He2 & Hv2 & Pa2 & Pb2 & Pc2 & Pd2).
    rewrite He, He2. cbn [bind app]. eexists; split; [reflexivity|]. split.
    + right; right; right. exists a, b, cc, d, a2, b2, c2, d2, h, l.
      repeat split; assumption.
    + unfold plain in *. repeat constructor; lia.
Qed.

Lemma escape_ok : forall s, forallb is_scalar s = true ->
  exists o, escape s = Ok o /\ Forall (fun k => 32 <= k <= 126) o.
Proof.
  induction s as [|c s IH]; intros Hs.
  - exists []. split; [reflexivity|constructor].
  - cbn [forallb] in Hs. apply andb_prop in Hs as [Hc Hs].
    destruct (escape_char_spec c Hc) as (oc & Hoc & _ & Hp).
    destruct (IH Hs) as (os & Hos & Hps).
    exists (oc ++ os). cbn [escape]. rewrite Hoc, Hos. cbn [bind].
    split; [reflexivity|]. apply Forall_app; split; assumption.
Qed.

(* ---------------- the decoder inverts the escaper ---------------- *)

Lemma decode_step : forall c o t f,
  escaped_as c o ->
  json_decode_fuel (S f) (o ++ t) = option_map (cons c) (json_decode_fuel f t).
Proof.
  intros c o t f [ (x & -> & Hx & Hne) | [ (-> & Hr & H34 & H92) | [ (a & b & cc & d & -> & Hv & Hh & Hl) |
     (a & b & cc & d & a2 & b2 & c2 & d2 & h & l & -> & Hv & Hv2 & Hh & Hl & Hc) ]]].
  - cbn [app json_decode_fuel]. change (92 =? 92) with true. cbn match.
    unfold read_u. destruct t as [|t0 t']; cbn [app].
    + apply N.eqb_neq in Hne. rewrite Hne. rewrite Hx. reflexivity.
    + apply N.eqb_neq in Hne. rewrite Hne. rewrite Hx. reflexivity.
  - cbn [app json_decode_fuel].
    replace (c =? 92) with false by (symmetry; apply N.eqb_neq; lia).
    replace ((c <? 32) || (c =? 34)) with false; [reflexivity|].
    symmetry. apply orb_false_iff. split; [apply N.ltb_ge; lia | apply N.eqb_neq; lia].
  - cbn [app json_decode_fuel]. change (92 =? 92) with true. cbn match.
    unfold read_u. change (117 =? 117) with true. cbn match. cbn [take4].
    rewrite Hv, Hh, Hl. reflexivity.
  - cbn [app json_decode_fuel]. change (92 =? 92) with true. cbn match.
    unfold read_u. change (117 =? 117) with true. cbn match. cbn [take4].
    rewrite Hv, Hh. change (92 =? 92) with true. cbn match.
    change (117 =? 117) with true. cbn match.
    cbn [take4]. rewrite Hv2, Hl, Hc. reflexivity.
Qed.

Lemma decode_escape_fuel : forall s, forallb is_scalar s = true ->
  exists o, escape s = Ok o /\
    forall t f, json_decode_fuel (length s + f) (o ++ t)
                = option_map (app s) (json_decode_fuel f t).
Proof.
  induction s as [|c s IH]; intros Hs.
  - exists []. split; [reflexivity|]. intros t f. cbn [length app Nat.add].
    destruct (json_decode_fuel f t); reflexivity.
  - cbn [forallb] in Hs. apply andb_prop in Hs as [Hc Hs].
    destruct (escape_char_spec c Hc) as (oc & Hoc & Hesc & _).
    destruct (IH Hs) as (os & Hos & Hdec).
    exists (oc ++ os). cbn [escape]. rewrite Hoc, Hos. cbn [bind].
    split; [reflexivity|]. intros t f.
    rewrite <- app_assoc. cbn [length Nat.add].
    rewrite (decode_step c oc (os ++ t) (length s + f) Hesc).
    rewrite Hdec. destruct (json_decode_fuel f t); reflexivity.
Qed.

Lemma decode_mono : forall f s r,
  json_decode_fuel f s = Some r -> json_decode_fuel (S f) s = Some r.
Proof.
  induction f as [|f IH]; intros s r H; [discriminate|].
  cbn [json_decode_fuel] in H.
  assert (IH' : forall s r, json_decode_fuel f s = Some r -> json_decode_fuel (S f) s = Some r) by exact IH.
  clear IH. remember (S f) as g eqn:Hg. cbn [json_decode_fuel].
  destruct s as [|c s]; [exact H|].
  destruct (c =? 92).
  - destruct (read_u s) as [[u r1]|].
    + destruct (is_high u).
      * destruct r1 as [|bs r2]; [discriminate|].
        destruct (bs =? 92); [|discriminate].
        destruct (read_u r2) as [[v r3]|]; [|discriminate].
        destruct (is_low v); [|discriminate].
        destruct (json_decode_fuel f r3) as [x|] eqn:E; [|discriminate].
        rewrite (IH' _ _ E). exact H.
      * destruct (is_low u); [discriminate|].
        destruct (json_decode_fuel f r1) as [x|] eqn:E; [|discriminate].
        rewrite (IH' _ _ E). exact H.
    + destruct s as [|e r1]; [discriminate|].
      destruct (simple_escape e); [|discriminate].
      destruct (json_decode_fuel f r1) as [x|] eqn:E; [|discriminate].
      rewrite (IH' _ _ E). exact H.
  - destruct ((c <? 32) || (c =? 34)); [discriminate|].
    destruct (json_decode_fuel f s) as [x|] eqn:E; [|discriminate].
    rewrite (IH' _ _ E). exact H.
Qed.

Lemma decode_mono_le : forall f f' s r, (f <= f')%nat ->
  json_decode_fuel f s = Some r -> json_decode_fuel f' s = Some r.
Proof.
  intros f f' s r Hle H. induction Hle as [|m Hle IH]; [exact H|].
  apply decode_mono. exact IH.
Qed.

Lemma escape_char_nonempty c o : escape_char c = Ok o -> is_scalar c = true -> (1 <= length o)%nat.
Proof.
  intros H Hs. destruct (escape_char_spec c Hs) as (o' & Ho' & Hesc & _).
  rewrite H in Ho'. injection Ho' as <-.
  destruct Hesc as [ (x & -> & _) | [ (-> & _) | [ (a & b & cc & d & -> & _) |
     (a & b & cc & d & a2 & b2 & c2 & d2 & h & l & -> & _) ]]]; cbn [length]; lia.
Qed.

Lemma escape_length : forall s o, forallb is_scalar s = true -> escape s = Ok o ->
  (length s <= length o)%nat.
Proof.
  induction s as [|c s IH]; intros o Hs H.
  - cbn [length]. lia.
  - cbn [forallb] in Hs. apply andb_prop in Hs as [Hc Hs].
    cbn [escape] in H.
    destruct (escape_char c) as [oc| |] eqn:Hoc; try discriminate.
    destruct (escape s) as [os| |] eqn:Hos; try discriminate.
    cbn [bind] in H. injection H as <-.
    pose proof (escape_char_nonempty c oc Hoc Hc).
    pose proof (IH os Hs eq_refl).
    rewrite app_length. cbn [length]. lia.
Qed.

Theorem json_roundtrip_lemma : forall s, forallb is_scalar s = true ->
  exists o, escape s = Ok o /\ json_decode o = Some s /\
            Forall (fun k => 32 <= k <= 126) o.
Proof.
  intros s Hs.
  destruct (decode_escape_fuel s Hs) as (o & Ho & Hdec).
  destruct (escape_ok s Hs) as (o' & Ho' & Hp). rewrite Ho in Ho'. injection Ho' as <-.
  exists o. split; [exact Ho|]. split; [|exact Hp].
  specialize (Hdec [] 1%nat). rewrite app_nil_r in Hdec.
  cbn [json_decode_fuel option_map] in Hdec. rewrite app_nil_r in Hdec.
  unfold json_decode.
  apply (decode_mono_le (length s + 1)); [|exact Hdec].
  pose proof (escape_length s o Hs Ho). lia.
Qed.

(* Far outside the Unicode range the model of the escaper reaches the first
   [unwrap]: the scalar hypothesis (which Rust's [char] guarantees) is what
   rules the panic sites out. *)
Lemma escape_panics_outside : escape [10551296] = Panic 1.
Proof. vm_compute. reflexivity. Qed.

(* ---------------- inline substitution ---------------- *)

(* raw parts: what the scanner cuts, before evaluation *)
Inductive rawpart := RText (s : list N) | RExpr (src : list N).

Fixpoint scan_raw (input rev_cur : list N) (in_expr in_bt : bool) (acc : list rawpart)
  : list rawpart :=
  match input with
  | [] =>
    let cur := rev rev_cur in
    rev (RText (if in_expr then 91 :: 91 :: cur else cur) :: acc)
  | ch :: r =>
    let rev_cur := ch :: rev_cur in
    let in_bt := if ch =? 96 then negb in_bt else in_bt in
    if negb in_expr && negb in_bt && ends_with2 rev_cur 91 then
      scan_raw r [] true in_bt (RText (rev (skipn 2 rev_cur)) :: acc)
    else if in_expr && negb in_bt && ends_with2 rev_cur 93 then
      scan_raw r [] false in_bt (RExpr (rev (skipn 2 rev_cur)) :: acc)
    else scan_raw r rev_cur in_expr in_bt acc
  end.

Definition fill (eval : list N -> list N + list N) (p : rawpart) : part :=
  match p with
  | RText s => Unprocessed s
  | RExpr src => match eval src with inl o => FendOutput o | inr m => FendError m end
  end.

Definition raw_source (p : rawpart) : list N :=
  match p with RText s => s | RExpr src => 91 :: 91 :: src ++ [93; 93] end.

Lemma scan_is_fill eval : forall input rev_cur ie ib acc,
  scan eval input rev_cur ie ib (map (fill eval) acc)
  = map (fill eval) (scan_raw input rev_cur ie ib acc).
Proof.
  induction input as [|ch r IH]; intros rev_cur ie ib acc.
  - cbn [scan scan_raw]. rewrite map_rev. reflexivity.
  - cbn [scan scan_raw].
    destruct (negb ie && negb (if ch =? 96 then negb ib else ib) && ends_with2 (ch :: rev_cur) 91).
    + rewrite <- IH. reflexivity.
    + destruct (ie && negb (if ch =? 96 then negb ib else ib) && ends_with2 (ch :: rev_cur) 93).
      * rewrite <- IH. reflexivity.
      * apply IH.
Qed.

Lemma ends_with2_split rc c : ends_with2 rc c = true ->
  rev rc = rev (skipn 2 rc) ++ [c; c].
Proof.
  unfold ends_with2. destruct rc as [|a [|b rc]]; try discriminate.
  intros H. apply andb_prop in H as [Ha Hb].
  apply N.eqb_eq in Ha, Hb. subst. cbn [skipn rev]. rewrite <- app_assoc. reflexivity.
Qed.

(* the invariant: text consumed so far = sources of finished parts ++
   (the "[[" that opened the current expression, if any) ++ current component *)
Lemma scan_raw_preserves : forall input rev_cur ie ib acc,
  concat (map raw_source (scan_raw input rev_cur ie ib acc))
  = concat (map raw_source (rev acc)) ++ (if ie then [91; 91] else []) ++ rev rev_cur ++ input.
Proof.
  induction input as [|ch r IH]; intros rev_cur ie ib acc.
  - cbn [scan_raw]. cbn [rev]. rewrite map_app, concat_app. cbn [map concat raw_source].
    rewrite !app_nil_r. destruct ie; reflexivity.
  - cbn [scan_raw].
    destruct (negb ie && negb (if ch =? 96 then negb ib else ib) && ends_with2 (ch :: rev_cur) 91) eqn:E1.
    + apply andb_prop in E1 as [E1 Hend]. apply andb_prop in E1 as [Hie _].
      destruct ie; [discriminate|].
      rewrite IH. cbn [rev]. rewrite map_app, concat_app. cbn [map concat raw_source].
      rewrite app_nil_r. cbn [app].
      pose proof (ends_with2_split _ _ Hend) as Hs. cbn [rev] in Hs.
      rewrite <- !app_assoc. cbn [app].
      change (ch :: r) with ([ch] ++ r). rewrite (app_assoc (rev rev_cur) [ch] r).
      rewrite Hs. rewrite <- !app_assoc. reflexivity.
    + destruct (ie && negb (if ch =? 96 then negb ib else ib) && ends_with2 (ch :: rev_cur) 93) eqn:E2.
      * apply andb_prop in E2 as [E2 Hend]. apply andb_prop in E2 as [Hie _].
        destruct ie; [|discriminate].
        rewrite IH. cbn [rev]. rewrite map_app, concat_app. cbn [map concat raw_source].
        rewrite app_nil_r. cbn [app].
        pose proof (ends_with2_split _ _ Hend) as Hs. cbn [rev] in Hs.
        rewrite <- !app_assoc. cbn [app].
        change (ch :: r) with ([ch] ++ r). rewrite (app_assoc (rev rev_cur) [ch] r).
        rewrite Hs. rewrite <- !app_assoc. reflexivity.
      * rewrite IH. cbn [rev]. rewrite <- !app_assoc. reflexivity.
Qed.

Theorem inline_parts_are_fill eval input :
  substitute eval input = map (fill eval) (scan_raw input [] false false []).
Proof. unfold substitute. apply (scan_is_fill eval input [] false false []). Qed.

Theorem inline_text_preserved_lemma input :
  concat (map raw_source (scan_raw input [] false false [])) = input.
Proof. rewrite scan_raw_preserves. reflexivity. Qed.

(* an expression is only ever opened or closed outside backticks, and its
   source never contains "]]" outside backticks -- stated through the
   scanner's own flags: a part boundary is only cut when in_bt is false.
   (This is immediate from the two guards of [scan_raw].) *)

(* JSON form: one object per part, the contents field decodes to the part *)
Definition part_tag (p : part) : list N :=
  match p with
  | Unprocessed _ => B"""unprocessed"""
  | FendOutput _ => B"""fend_output"""
  | FendError _ => B"""fend_error"""
  end.

Definition part_obj (p : part) (body : list N) : list N :=
  B"{""type"": " ++ part_tag p ++ B", ""contents"": """ ++ body ++ B"""}".

Fixpoint join_objs (objs : list (list N)) (first : bool) : list N :=
  match objs with
  | [] => []
  | o :: r => (if first then [] else [44]) ++ o ++ join_objs r false
  end.

Lemma parts_json_go_spec : forall ps first,
  Forall (fun p => forallb is_scalar (part_contents p) = true) ps ->
  exists bodies, parts_json_go ps first = Ok (join_objs (map (fun pb => part_obj (fst pb) (snd pb)) (combine ps bodies)) first)
    /\ length bodies = length ps
    /\ Forall2 (fun p b => json_decode b = Some (part_contents p)
                           /\ Forall (fun k => 32 <= k <= 126) b) ps bodies.
Proof.
  induction ps as [|p ps IH]; intros first Hall.
  - exists []. repeat split; constructor.
  - inversion Hall as [|? ? Hp Hps]; subst.
    destruct (json_roundtrip_lemma _ Hp) as (b & Hb & Hd & Hpr).
    destruct (IH false Hps) as (bs & Hgo & Hlen & Hf2).
    exists (b :: bs). cbn [parts_json_go]. unfold part_json. rewrite Hb. cbn [bind].
    rewrite Hgo. cbn [bind]. split.
    + cbn [combine map join_objs fst snd]. unfold part_obj, part_tag.
      destruct p; reflexivity.
    + split; [cbn [length]; lia|]. constructor; [split; assumption|assumption].
Qed.

Theorem inline_json_lemma : forall ps,
  Forall (fun p => forallb is_scalar (part_contents p) = true) ps ->
  exists bodies,
    to_json ps = Ok (91 :: join_objs (map (fun pb => part_obj (fst pb) (snd pb)) (combine ps bodies)) true ++ [93])
    /\ length bodies = length ps
    /\ Forall2 (fun p b => json_decode b = Some (part_contents p)
                           /\ Forall (fun k => 32 <= k <= 126) b) ps bodies.
Proof.
  intros ps Hall. destruct (parts_json_go_spec ps true Hall) as (bs & Hgo & Hlen & Hf2).
  exists bs. unfold to_json. rewrite Hgo. cbn [bind]. repeat split; assumption.
Qed.
