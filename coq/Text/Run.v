(* Dispatcher for the Text area: the executable entry points used by the
   correspondence check (extracted to OCaml and also run by vm_compute). *)
From FendV Require Import Base.Prelude Text.Json Text.JsonProofs.
Open Scope N_scope.

Definition sx_rawpart (p : rawpart) : sx :=
  match p with
  | RText s => XL [XS (B"t"); sx_Ns s]
  | RExpr s => XL [XS (B"e"); sx_Ns s]
  end.

Definition as_part (s : sx) : option part :=
  match s with
  | XL [XS k; XL cps] =>
    match as_Ns cps with
    | Some c =>
      if opeq k "u" then Some (Unprocessed c)
      else if opeq k "o" then Some (FendOutput c)
      else if opeq k "e" then Some (FendError c)
      else None
    | None => None
    end
  | _ => None
  end.

Fixpoint as_parts (l : list sx) : option (list part) :=
  match l with
  | [] => Some []
  | x :: r => match as_part x, as_parts r with
              | Some p, Some ps => Some (p :: ps) | _, _ => None end
  end.

Definition run_text : dispatcher := fun op args =>
  if opeq op "json-escape" then
    match args with
    | [XL cps] => match as_Ns cps with
                  | Some s => Some (sx_res XS (escape s))
                  | None => Some sx_bad end
    | _ => Some sx_bad
    end
  else if opeq op "json-decode" then
    match args with
    | [XS bs] => Some (sx_opt sx_Ns (json_decode bs))
    | _ => Some sx_bad
    end
  else if opeq op "inline-raw" then
    match args with
    | [XL cps] => match as_Ns cps with
                  | Some s => Some (XL (map sx_rawpart (scan_raw s [] false false [])))
                  | None => Some sx_bad end
    | _ => Some sx_bad
    end
  else if opeq op "inline-json" then
    match as_parts args with
    | Some ps => Some (sx_res XS (to_json ps))
    | None => Some sx_bad
    end
  else None.

Definition run_text_line : list N -> list N := run_with run_text.
