(* Model of core/src/json.rs (escape_string) on lists of Unicode scalar
   values, an independent RFC 8259 string-body decoder used as the spec, and
   the model of core/src/inline_substitutions.rs (scanner + to_json) with the
   evaluator as a parameter.  No proofs in this file. *)
From FendV Require Import Base.Prelude.
Open Scope N_scope.

Definition is_scalar (c : N) : bool :=
  (c <? 55296) || ((57344 <=? c) && (c <? 1114112)).

(* char::from_digit(d, 16): Some for d < 16, lower-case *)
Definition from_digit16 (d : N) : option N :=
  if d <? 10 then Some (48 + d) else if d <? 16 then Some (87 + d) else None.

(* char::encode_utf16 *)
Definition utf16 (c : N) : list N :=
  if c <? 65536 then [c]
  else let c' := c - 65536 in [55296 + c' / 1024; 56320 + c' mod 1024].

(* the four `.unwrap()`s of json.rs are panic sites 1..4 *)
Definition esc_unit (u : N) : res (list N) :=
  match from_digit16 (u / 4096) with None => Panic 1 | Some a =>
  match from_digit16 (u mod 4096 / 256) with None => Panic 2 | Some b =>
  match from_digit16 (u mod 256 / 16) with None => Panic 3 | Some c =>
  match from_digit16 (u mod 16) with None => Panic 4 | Some d =>
  Ok [92; 117; a; b; c; d] end end end end.

Fixpoint esc_units (us : list N) : res (list N) :=
  match us with
  | [] => Ok []
  | u :: r => do a <- esc_unit u; do b <- esc_units r; Ok (a ++ b)
  end.

Definition escape_char (c : N) : res (list N) :=
  if c =? 92 then Ok [92; 92]
  else if c =? 34 then Ok [92; 34]
  else if c =? 10 then Ok [92; 110]
  else if c =? 13 then Ok [92; 114]
  else if c =? 9 then Ok [92; 116]
  else if (32 <=? c) && (c <=? 126) then Ok [c]
  else esc_units (utf16 c).

Fixpoint escape (s : list N) : res (list N) :=
  match s with
  | [] => Ok []
  | c :: r => do a <- escape_char c; do b <- escape r; Ok (a ++ b)
  end.

(* ---------------- spec: RFC 8259 string body decoder ---------------- *)

Definition hexv (b : N) : option N :=
  if (48 <=? b) && (b <=? 57) then Some (b - 48)
  else if (97 <=? b) && (b <=? 102) then Some (b - 87)
  else if (65 <=? b) && (b <=? 70) then Some (b - 55)
  else None.

Definition hex4v (a b c d : N) : option N :=
  match hexv a, hexv b, hexv c, hexv d with
  | Some x, Some y, Some z, Some w => Some (x * 4096 + y * 256 + z * 16 + w)
  | _, _, _, _ => None
  end.

Definition is_high (u : N) : bool := (55296 <=? u) && (u <? 56320).
Definition is_low (u : N) : bool := (56320 <=? u) && (u <? 57344).

Definition simple_escape (c : N) : option N :=
  if c =? 34 then Some 34 else if c =? 92 then Some 92 else if c =? 47 then Some 47
  else if c =? 98 then Some 8 else if c =? 102 then Some 12 else if c =? 110 then Some 10
  else if c =? 114 then Some 13 else if c =? 116 then Some 9 else None.

(* input: the characters between the quotes; output: the decoded scalars.
   Strict: unescaped quote, control characters, bad escapes and lone
   surrogates are rejected.  Fuel: one unit per recursive call. *)
Definition take4 (s : list N) : option (N * N * N * N * list N) :=
  match s with a :: b :: c :: d :: r => Some (a, b, c, d, r) | _ => None end.

(* reads the "uXXXX" part after a backslash: returns the code unit and rest *)
Definition read_u (s : list N) : option (N * list N) :=
  match s with
  | [] => None
  | e :: r =>
    if e =? 117 then
      match take4 r with
      | Some (a, b, c, d, r') =>
        match hex4v a b c d with Some u => Some (u, r') | None => None end
      | None => None
      end
    else None
  end.

Fixpoint json_decode_fuel (fuel : nat) (s : list N) : option (list N) :=
  match fuel with
  | O => None
  | S f =>
    match s with
    | [] => Some []
    | c :: r =>
      if c =? 92 then
        match read_u r with
        | Some (u, r1) =>
          if is_high u then
            match r1 with
            | [] => None
            | bs :: r2 =>
              if bs =? 92 then
                match read_u r2 with
                | Some (v, r3) =>
                  if is_low v then
                    option_map (cons (65536 + (u - 55296) * 1024 + (v - 56320)))
                               (json_decode_fuel f r3)
                  else None
                | None => None
                end
              else None
            end
          else if is_low u then None
          else option_map (cons u) (json_decode_fuel f r1)
        | None =>
          match r with
          | [] => None
          | e :: r1 =>
            match simple_escape e with
            | Some x => option_map (cons x) (json_decode_fuel f r1)
            | None => None
            end
          end
        end
      else if (c <? 32) || (c =? 34) then None
      else option_map (cons c) (json_decode_fuel f r)
    end
  end.

Definition json_decode (s : list N) : option (list N) :=
  json_decode_fuel (S (length s)) s.

(* ---------------- inline substitution ---------------- *)

Inductive part :=
| Unprocessed (s : list N)
| FendOutput (s : list N)
| FendError (s : list N).

Definition part_contents (p : part) : list N :=
  match p with Unprocessed s | FendOutput s | FendError s => s end.

(* current_component is kept reversed (most recent char first) *)
Definition ends_with2 (rev_cur : list N) (c : N) : bool :=
  match rev_cur with a :: b :: _ => (a =? c) && (b =? c) | _ => false end.

Section Inline.
  (* the evaluator: Ok text / Err message; it is called on the text between
     the brackets, in order, left to right (state threading is irrelevant to
     the text-preservation properties and is left to the oracle) *)
  Variable eval : list N -> list N + list N.

  Fixpoint scan (input : list N) (rev_cur : list N) (in_expr in_bt : bool)
           (acc : list part) : list part :=
    match input with
    | [] =>
      let cur := rev rev_cur in
      rev (Unprocessed (if in_expr then 91 :: 91 :: cur else cur) :: acc)
    | ch :: r =>
      let rev_cur := ch :: rev_cur in
      let in_bt := if ch =? 96 then negb in_bt else in_bt in
      if negb in_expr && negb in_bt && ends_with2 rev_cur 91 then
        scan r [] true in_bt (Unprocessed (rev (skipn 2 rev_cur)) :: acc)
      else if in_expr && negb in_bt && ends_with2 rev_cur 93 then
        let src := rev (skipn 2 rev_cur) in
        scan r [] false in_bt
             (match eval src with
              | inl out => FendOutput out
              | inr msg => FendError msg
              end :: acc)
      else scan r rev_cur in_expr in_bt acc
    end.

  Definition substitute (input : list N) : list part := scan input [] false false [].
End Inline.

Definition part_json (p : part) : res (list N) :=
  do body <- escape (part_contents p);
  Ok (B"{""type"": " ++
      match p with
      | Unprocessed _ => B"""unprocessed"""
      | FendOutput _ => B"""fend_output"""
      | FendError _ => B"""fend_error"""
      end ++ B", ""contents"": """ ++ body ++ B"""}").

Fixpoint parts_json_go (ps : list part) (first : bool) : res (list N) :=
  match ps with
  | [] => Ok []
  | p :: r =>
    do a <- part_json p; do b <- parts_json_go r false;
    Ok ((if first then [] else [44]) ++ a ++ b)
  end.

Definition to_json (ps : list part) : res (list N) :=
  do body <- parts_json_go ps true; Ok (91 :: body ++ [93]).
