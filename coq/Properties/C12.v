(* C12 -- Saved variables reload to the same values.
   Property theorems only; each closed by [exact].  The model is
   Ser/Codec.v (byte-exact writer [ser_*] and reader [de_*] of
   Context::serialize_variables / deserialize_variables).  [cfg_today sz] is
   the tree being checked: the code after the fix commits 40160da (scope
   presence flags) and 3cf46ce (built-in names), 076760b, 4b8e673; the table of
   function literals is re-extracted from the tree on every run.
   [cfg_pinned sz] is the code as it was pinned; the theorems about it document
   the two repaired defects.  [sz] are the element sizes of the build.
   `Equal up to hash-map order': the model keeps a map as the list of entries
   in the order the writer emitted them, and the theorems hold for every such
   order.
   wf_codec ([wfc_*], relative to the reader's capacity cap) is what the Rust
   types guarantee of a value: u64 limbs, u8 fields, usize lengths, UTF-8
   strings, enums in range, a function literal as_str writes, distinct map
   keys; wf_sem ([wfs_*]) is what fend's own values satisfy and the loader now
   checks: base in 2..=36, non-empty limb vectors, non-zero denominators,
   non-empty identifiers. *)
From FendV Require Import Base.Prelude Ser.Generated.BuiltinNames Ser.Codec Ser.Cfg Ser.Witness
  Ser.CodecRT Ser.CodecSafe Ser.NamesProofs Ser.CodecLoaded Ser.CodecCor.
Open Scope N_scope.

(* ---- main theorems: the tree being checked, full strength ---- *)

(* every well-formed value tree, followed by any bytes, reads back as itself
   and leaves those bytes *)
Theorem C12_roundtrip : forall sz v rest,
  wfc_value as_names cap_today sz v = true -> wfs_value v = true ->
  run (de_value_top (cfg_today sz)) (ser_value v ++ rest) = Ok (v, rest).
Proof. exact roundtrip_today. Qed.
Print Assumptions C12_roundtrip.

(* the whole variables map *)
Theorem C12_vars_roundtrip : forall sz m rest,
  wfc_vars as_names cap_today sz m = true -> wfs_vars m = true ->
  run (de_vars (cfg_today sz)) (ser_vars m ++ rest) = Ok (m, rest).
Proof. exact vars_roundtrip_today. Qed.
Print Assumptions C12_vars_roundtrip.

(* DESIGN 3.3: every literal BuiltInFunction::as_str can write is accepted by
   try_from_str (over the tables extracted from the tree) *)
Theorem C12_builtin_names : forall n, In n as_names -> In n from_names.
Proof. exact as_names_accepted_In. Qed.
Print Assumptions C12_builtin_names.

(* ... one arm per variant in declaration order, distinct literals, and every
   accepted literal maps back to the variant that writes it *)
Theorem C12_builtin_names_consistent :
  map fst as_str_table = builtin_variants /\ nodup_b as_names = true /\
  forallb (fun p => match assoc (snd p) from_str_table with
                    | Some variant => list_N_eqb variant (fst p)
                    | None => true end) as_str_table = true.
Proof. exact (conj as_str_total (conj as_names_nodup from_str_agrees_with_as_str)). Qed.
Print Assumptions C12_builtin_names_consistent.

(* the general form: any configuration, any fuel above the nesting depth *)
Theorem C12_roundtrip_general : forall c asn v fuel rest,
  rt_ok_value c asn v = true -> (fuel_value v <= fuel)%nat ->
  run (de_value c fuel) (ser_value v ++ rest) = Ok (v, rest).
Proof. exact value_roundtrip_fuel. Qed.
Print Assumptions C12_roundtrip_general.

(* per-type corollaries *)
Theorem C12_number_roundtrip : forall sz n rest,
  wfc_number cap_today sz n = true -> wfs_number n = true ->
  run (de_value_top (cfg_today sz)) (ser_value (VNum n) ++ rest) = Ok (VNum n, rest).
Proof. exact (fun sz n rest Hw Hs => roundtrip_today sz (VNum n) rest Hw Hs). Qed.
Print Assumptions C12_number_roundtrip.

Theorem C12_string_roundtrip : forall sz s rest, strb cap_today s = true ->
  run (de_value_top (cfg_today sz)) (ser_value (VString s) ++ rest) = Ok (VString s, rest).
Proof. exact (fun sz s rest Hw => roundtrip_today sz (VString s) rest Hw eq_refl). Qed.
Print Assumptions C12_string_roundtrip.

Theorem C12_date_roundtrip : forall sz y m d rest, yearb y && monthb m && dayb d = true ->
  run (de_value_top (cfg_today sz)) (ser_value (VDate y m d) ++ rest) = Ok (VDate y m d, rest).
Proof. exact (fun sz y m d rest Hw => roundtrip_today sz (VDate y m d) rest Hw eq_refl). Qed.
Print Assumptions C12_date_roundtrip.

(* the images and values that did not survive a reload now do *)
Theorem C12_saved_closure_image :
  match run (de_vars (cfg_today sizes_x64)) img_closure with
  | Ok (m, []) => (length m =? 4)%nat && list_N_eqb (ser_vars m) img_closure
  | _ => false end = true.
Proof. exact img_closure_today. Qed.
Print Assumptions C12_saved_closure_image.

(* ---- the repaired defects (code as pinned) ---- *)

(* fixed 40160da: the closure g of `f = \x.\y.x+y; g = f 3' is well-formed
   and the pinned reader failed on what the writer produced for it *)
Theorem C12_pinned_roundtrip_refuted_scope_flag :
  exists v, wfc_value as_names None sizes_x64 v = true /\ wfs_value v = true /\
            run (de_value_top (cfg_pinned sizes_x64)) (ser_value v) = Err EDeser.
Proof. exact (ex_intro _ w_closure (conj (proj1 w_closure_wf) (conj (proj2 (proj2 w_closure_wf)) w_closure_fails_pinned))). Qed.
Print Assumptions C12_pinned_roundtrip_refuted_scope_flag.

(* fixed 3cf46ce: likewise the built-in function floor *)
Theorem C12_pinned_roundtrip_refuted_builtin_name :
  exists v, wfc_value as_names None sizes_x64 v = true /\ wfs_value v = true /\
            run (de_value_top (cfg_pinned sizes_x64)) (ser_value v) = Err EDeser.
Proof. exact (ex_intro _ w_floor (conj (proj1 w_floor_wf) (conj (proj2 (proj2 w_floor_wf)) w_floor_fails_pinned))). Qed.
Print Assumptions C12_pinned_roundtrip_refuted_builtin_name.

(* an image fend itself wrote: the pinned reader rejected it after requesting
   7.4e18 bytes (the process aborted) *)
Theorem C12_pinned_saved_closure_image_refuted :
  de_vars (cfg_pinned sizes_x64) img_closure = (Err EDeser, 7423621035766841344).
Proof. exact img_closure_pinned. Qed.
Print Assumptions C12_pinned_saved_closure_image_refuted.

(* the pinned name table lacked mean, arg, floor, ceil, round *)
Theorem C12_pinned_builtin_names_refuted :
  forallb (fun n => negb (mem n from_names_pinned)) known_missing_names = true.
Proof. exact pinned_missing. Qed.
Print Assumptions C12_pinned_builtin_names_refuted.

(* outside the two classes the pinned reader was already the inverse of the
   writer *)
Theorem C12_pinned_roundtrip_except_known : forall sz v rest,
  wfc_value as_names None sz v = true -> known_pinned v = false ->
  run (de_value_top (cfg_pinned sz)) (ser_value v ++ rest) = Ok (v, rest).
Proof. exact roundtrip_pinned_except_known. Qed.
Print Assumptions C12_pinned_roundtrip_except_known.

(* hypotheses are satisfiable: a curried closure over a number with a unit,
   an object holding a string and a date, a closure with a captured scope and
   the built-in floor, in a four-entry map *)
Example C12_hypotheses_inhabited :
  let kg := mkNU [] (B"kilogram") (B"kilograms") false [(B"kilogram", c_int 1)] (c_int 1) in
  let n := mkNum [(c_int 3, q_int 1)] [mkUE kg (c_int 1)] true (BPlain 10) (FDp 2) true in
  let f := VFn (B"x") (EFn (B"y") (EBop 0 (EIdent (B"x")) (ELit (VNum n)))) ONone in
  let m := [(B"f", f); (B"d", VObject (ICons (B"s") (VString (B"h\195\169")) (ICons (B"t") (VDate 2020 2 29) INil)));
            (B"g", w_closure); (B"h", w_floor)] in
  wfc_vars as_names cap_today sizes_x64 m = true /\ wfs_vars m = true /\
  run (de_vars (cfg_today sizes_x64)) (ser_vars m) = Ok (m, []).
Proof. vm_compute. repeat split; reflexivity. Qed.
