(* C12 -- Saved variables reload to the same values.
   Property theorems only; each closed by [exact].  The model is
   Ser/Codec.v (byte-exact writer [ser_*] and reader [de_*] of
   Context::serialize_variables / deserialize_variables); [cfg_today sz] is
   the tree being checked, [cfg_pinned sz] the code as pinned, [cfg_fixed sz]
   the code with notes/C12_scope_flags.patch, C12_builtin_names.patch,
   C14_prealloc_cap.patch and C14_validate_loaded.patch applied.  [sz] are the
   element sizes of the build (they only matter for capacity overflow).
   `Equal up to hash-map order': the model keeps a map as the list of entries
   in the order the writer emitted them, and the theorems hold for every such
   order. *)
From FendV Require Import Base.Prelude Ser.Generated.BuiltinNames Ser.Codec Ser.Cfg
  Ser.CodecRT Ser.CodecSafe Ser.NamesProofs Ser.CodecCor.
Open Scope N_scope.

(* Full statement (DESIGN C12_roundtrip):
     forall v rest, wfv v -> deser_value (ser_value v ++ rest) = Ok (v, rest).
   It is REFUTED for the pinned reader (two independent defects) ... *)
Theorem C12_roundtrip_refuted_scope_flag :
  exists v, wfc_value as_names sizes_x64 v = true /\ wfs_value v = true /\
            run (de_value_top (cfg_pinned sizes_x64)) (ser_value v) = Err EDeser.
Proof. exact (ex_intro _ w_closure (conj (proj1 w_closure_wf) (conj (proj2 w_closure_wf) w_closure_fails))). Qed.
Print Assumptions C12_roundtrip_refuted_scope_flag.

Theorem C12_roundtrip_refuted_builtin_name :
  exists v, wfc_value as_names sizes_x64 v = true /\ wfs_value v = true /\
            run (de_value_top (cfg_pinned sizes_x64)) (ser_value v) = Err EDeser.
Proof. exact (ex_intro _ w_floor (conj (proj1 w_floor_wf) (conj (proj2 w_floor_wf) w_floor_fails))). Qed.
Print Assumptions C12_roundtrip_refuted_builtin_name.

(* an image fend itself wrote (f = \x.\y.x+y ; g = f 3): the pinned reader
   rejects it after requesting 7.4e18 bytes (the process aborts) *)
Theorem C12_saved_closure_image_refuted :
  de_vars (cfg_pinned sizes_x64) img_closure = (Err EDeser, 7423621035766841344).
Proof. exact img_closure_today. Qed.
Print Assumptions C12_saved_closure_image_refuted.

(* ... holds for the tree being checked outside the two listed classes
   (a closure that captured a scope; a built-in function whose literal
   try_from_str does not accept), for every well-formed value tree, every
   trailing input, every build ... *)
Theorem C12_roundtrip_except_known : forall sz, sizes_okb sz = true -> forall v rest,
  wfc_value as_names sz v = true -> known_C12 v = false ->
  run (de_value_top (cfg_today sz)) (ser_value v ++ rest) = Ok (v, rest).
Proof. exact roundtrip_except_known. Qed.
Print Assumptions C12_roundtrip_except_known.

(* ... and at full strength for the repaired reader. *)
Theorem C12_roundtrip_fixed : forall sz, sizes_okb sz = true -> forall v rest,
  wfc_value as_names sz v = true -> wfs_value v = true ->
  run (de_value_top (cfg_fixed sz)) (ser_value v ++ rest) = Ok (v, rest).
Proof. exact roundtrip_fixed. Qed.
Print Assumptions C12_roundtrip_fixed.

(* the general form behind both: any configuration, any fuel above the
   nesting depth *)
Theorem C12_roundtrip_general : forall c asn, sizes_okb (c_sz c) = true ->
  forall v fuel rest, rt_ok_value c asn v = true -> (fuel_value v <= fuel)%nat ->
  run (de_value c fuel) (ser_value v ++ rest) = Ok (v, rest).
Proof. exact value_roundtrip_fuel. Qed.
Print Assumptions C12_roundtrip_general.

(* whole variables map (Context::serialize_variables / deserialize_variables) *)
Theorem C12_vars_roundtrip_except_known : forall sz, sizes_okb sz = true -> forall m rest,
  wfc_vars as_names sz m = true ->
  forallb (fun kv => negb (known_C12 (snd kv))) m = true ->
  run (de_vars (cfg_today sz)) (ser_vars m ++ rest) = Ok (m, rest).
Proof. exact vars_roundtrip_except_known. Qed.
Print Assumptions C12_vars_roundtrip_except_known.

Theorem C12_vars_roundtrip_fixed : forall sz, sizes_okb sz = true -> forall m rest,
  wfc_vars as_names sz m = true -> wfs_vars m = true ->
  run (de_vars (cfg_fixed sz)) (ser_vars m ++ rest) = Ok (m, rest).
Proof. exact vars_roundtrip_fixed. Qed.
Print Assumptions C12_vars_roundtrip_fixed.

(* the repaired reader loads the image the pinned one rejects, and writing
   the result gives back the same bytes *)
Theorem C12_saved_closure_image_fixed :
  match run (de_vars (cfg_fixed sizes_x64)) img_closure with
  | Ok (m, []) => (length m =? 4)%nat && list_N_eqb (ser_vars m) img_closure
  | _ => false end = true.
Proof. exact img_closure_fixed. Qed.
Print Assumptions C12_saved_closure_image_fixed.

(* per-type corollaries used by the correspondence check's reports *)
Theorem C12_number_roundtrip : forall sz n rest,
  sizes_okb sz = true -> wfc_number sz n = true ->
  run (de_value_top (cfg_today sz)) (ser_value (VNum n) ++ rest) = Ok (VNum n, rest).
Proof. exact (fun sz n rest Hs Hw => roundtrip_except_known sz Hs (VNum n) rest Hw eq_refl). Qed.
Print Assumptions C12_number_roundtrip.

Theorem C12_string_roundtrip : forall sz s rest,
  sizes_okb sz = true -> strb s = true ->
  run (de_value_top (cfg_today sz)) (ser_value (VString s) ++ rest) = Ok (VString s, rest).
Proof. exact (fun sz s rest Hs Hw => roundtrip_except_known sz Hs (VString s) rest Hw eq_refl). Qed.
Print Assumptions C12_string_roundtrip.

Theorem C12_date_roundtrip : forall sz y m d rest,
  sizes_okb sz = true -> yearb y && monthb m && dayb d = true ->
  run (de_value_top (cfg_today sz)) (ser_value (VDate y m d) ++ rest) = Ok (VDate y m d, rest).
Proof. exact (fun sz y m d rest Hs Hw => roundtrip_except_known sz Hs (VDate y m d) rest Hw eq_refl). Qed.
Print Assumptions C12_date_roundtrip.

(* the name tables of BuiltInFunction, extracted from the tree being checked
   (Ser/Generated/BuiltinNames.v): every literal as_str writes is accepted by
   try_from_str except the five listed ones; whatever is accepted maps back
   to the same variant; distinct variants have distinct literals *)
Theorem C12_builtin_names_except_known : forall n,
  In n as_names -> mem n known_missing_names = false -> In n from_names.
Proof. exact as_names_accepted_except_known_In. Qed.
Print Assumptions C12_builtin_names_except_known.

Theorem C12_builtin_names_consistent :
  map fst as_str_table = builtin_variants /\ nodup_b as_names = true /\
  forallb (fun p => match assoc (snd p) from_str_table with
                    | Some variant => list_N_eqb variant (fst p)
                    | None => true end) as_str_table = true.
Proof. exact (conj as_str_total (conj as_names_nodup from_str_agrees_with_as_str)). Qed.
Print Assumptions C12_builtin_names_consistent.

Theorem C12_builtin_names_refuted :
  forallb (fun n => negb (mem n from_names_pinned)) known_missing_names = true.
Proof. exact pinned_missing. Qed.
Print Assumptions C12_builtin_names_refuted.

(* hypotheses are satisfiable: a curried closure over a number with a unit,
   a string and a date, in a two-entry map *)
Example C12_hypotheses_inhabited :
  let kg := mkNU [] (B"kilogram") (B"kilograms") false [(B"kilogram", c_int 1)] (c_int 1) in
  let n := mkNum [(c_int 3, q_int 1)] [mkUE kg (c_int 1)] true (BPlain 10) (FDp 2) true in
  let f := VFn (B"x") (EFn (B"y") (EBop 0 (EIdent (B"x")) (ELit (VNum n)))) ONone in
  let m := [(B"f", f); (B"d", VObject (ICons (B"s") (VString (B"h\195\169")) (ICons (B"t") (VDate 2020 2 29) INil)))] in
  sizes_okb sizes_x64 = true /\ wfc_vars as_names sizes_x64 m = true /\ wfs_vars m = true /\
  forallb (fun kv => negb (known_C12 (snd kv))) m = true.
Proof. vm_compute. repeat split; reflexivity. Qed.
