(* C20 -- A damaged exchange-rate cache cannot crash fend or yield wrong
   rates.  Property theorems only; each closed by [exact].

   Model: Cli/Rates.v (bytes of the cache file; every split_at / slice of
   cli/src/exchange_rates.rs an explicit panic site).  The oracle
   [o : list N -> fcl] stands for str::parse::<f64> followed by is_normal.
   [fixed = true] is the EU scanner as it stands (split_at_checked(3), /repo
   commit 348454e); [fixed = false] the scanner before that repair, kept to
   document the defect. *)
From FendV Require Import Base.Prelude Cli.Rates Cli.RatesProofs Cli.RatesEU Cli.RatesUN.
Open Scope N_scope.

(* ---- never panics -------------------------------------------------- *)

(* UN scanner: no slice can fail on any text in which no continuation byte
   follows an ASCII byte -- in particular on every valid UTF-8 text, i.e. on
   every &str (next theorem). *)
Theorem C20_un_no_panic : forall o bs k,
  wf_cont true bs = true -> parse_un o bs <> RPanic k.
Proof. exact un_no_panic. Qed.
Print Assumptions C20_un_no_panic.

Theorem C20_utf8_valid_wf : forall bs, utf8_valid bs = true -> wf_cont true bs = true.
Proof. exact utf8_valid_wf_cont. Qed.
Print Assumptions C20_utf8_valid_wf.

(* EU scanner (the code as it stands, fixed = true: split_at_checked(3)): it
   never panics, on any byte string, for any float oracle. *)
Theorem C20_eu_no_panic : forall o bs k, parse_eu o true bs <> RPanic k.
Proof. exact eu_fixed_no_panic. Qed.
Print Assumptions C20_eu_no_panic.

(* Documentation of the defect repaired by /repo commit 348454e.  The scanner
   as it was (fixed = false: split_at(3)) violated the statement above: *)
Theorem C20_eu_unrepaired_no_panic_refuted :
  exists bs, ~ (forall (o : list N -> fcl) k, parse_eu o false bs <> RPanic k).
Proof. exact eu_no_panic_refuted_ex. Qed.
Print Assumptions C20_eu_unrepaired_no_panic_refuted.

(* ... with this witness (a cache cut inside a currency code) ... *)
Theorem C20_eu_unrepaired_witness : forall o, parse_eu o false (B"<Cube currency='U") = RPanic 1.
Proof. exact eu_no_panic_refuted. Qed.
Print Assumptions C20_eu_unrepaired_witness.

(* ... and only on the classified inputs: a line `<Cube currency='` followed
   by fewer than three bytes or by a multi-byte character straddling offset 3. *)
Theorem C20_eu_unrepaired_no_panic_except_known : forall o bs,
  known_C20_eu_split_at bs = false -> forall k, parse_eu o false bs <> RPanic k.
Proof. exact eu_no_panic_except_known. Qed.
Print Assumptions C20_eu_unrepaired_no_panic_except_known.

(* The repair changed nothing where the old scanner did not panic, ... *)
Theorem C20_eu_repair_conservative : forall o bs,
  (forall k, parse_eu o false bs <> RPanic k) -> parse_eu o true bs = parse_eu o false bs.
Proof. exact eu_fixed_agrees. Qed.
Print Assumptions C20_eu_repair_conservative.

(* ... and turned every panic into the ordinary error. *)
Theorem C20_eu_repair_on_known : forall o bs k,
  parse_eu o false bs = RPanic k -> parse_eu o true bs = RErr MSG_FAIL.
Proof. exact eu_fixed_on_known. Qed.
Print Assumptions C20_eu_repair_on_known.

(* ---- rates are verbatim -------------------------------------------- *)

(* Every entry after the built-in EUR = 1 is a three-byte currency and a
   token the oracle calls normal, standing in the text as
   <Cube currency='CCC' rate='TOKEN'   (the separator possibly repeated). *)
Theorem C20_eu_verbatim : forall o fixed bs rs, parse_eu o fixed bs = ROk rs ->
  exists rs', rs = (EUR, None) :: rs' /\ Forall (eu_entry_ok o bs) rs' /\ (9 <= length rs')%nat.
Proof. exact eu_verbatim. Qed.
Print Assumptions C20_eu_verbatim.

(* Every entry after the built-in USD = 1 stands in the text as
   <f_curr_code>CUR</f_curr_code> ... <rate>TOKEN</rate>. *)
Theorem C20_un_verbatim : forall o bs rs, parse_un o bs = ROk rs ->
  exists rs', rs = (USD, None) :: rs' /\ Forall (un_entry_ok o bs) rs'.
Proof. exact un_verbatim. Qed.
Print Assumptions C20_un_verbatim.

(* ---- a prefix never yields a rate the whole file did not contain ---- *)

(* If both a prefix and the whole text are accepted, the prefix's list is an
   initial segment of the whole text's list.  (The oracle must reject the
   empty token, as str::parse::<f64> does.) *)
Theorem C20_eu_prefix_monotone : forall o, o [] <> FNormal ->
  forall fixed p s rs rf,
  parse_eu o fixed p = ROk rs -> parse_eu o fixed (p ++ s) = ROk rf ->
  exists more, rf = rs ++ more.
Proof. exact eu_prefix_monotone. Qed.
Print Assumptions C20_eu_prefix_monotone.

Theorem C20_un_prefix_monotone : forall o p s rs rf,
  parse_un o p = ROk rs -> parse_un o (p ++ s) = ROk rf -> exists more, rf = rs ++ more.
Proof. exact un_prefix_monotone. Qed.
Print Assumptions C20_un_prefix_monotone.

(* ---- framing -------------------------------------------------------- *)

(* load_cached_data never panics; a hit means: valid UTF-8, `digits;payload`
   with an in-range, not-in-the-future, unexpired timestamp; the payload is
   the rest of the file from the ';' on. *)
Theorem C20_framing_total : forall file now max_age,
  match load_cached file now max_age with
  | CPanic _ => False
  | CMiss _ => True
  | CHit xml =>
    exists ts t, file = ts ++ xml /\ hd_error xml = Some 59 /\ ~ In 59 ts /\
                 parse_u64 ts = Some t /\ t <= now /\ now - t <= max_age /\
                 utf8_valid file = true /\ wf_cont true xml = true
  end.
Proof. exact framing_total. Qed.
Print Assumptions C20_framing_total.

(* the model's loop fuel is sufficient (more fuel never changes the answer) *)
Theorem C20_un_fuel_sufficient : forall o rem acc extra,
  un_loop o (S (length rem) + extra) rem acc = un_loop o (S (length rem)) rem acc.
Proof. exact un_fuel_sufficient. Qed.
Print Assumptions C20_un_fuel_sufficient.

(* ---- what a conversion sees ------------------------------------------ *)

(* Whatever bytes the cache file holds, whichever source is configured:
   reading it never panics ... *)
Theorem C20_cache_no_panic : forall o src file now max_age k,
  cache_rates o true src file now max_age <> OPanic k.
Proof. exact cache_no_panic_repaired. Qed.
Print Assumptions C20_cache_no_panic.

(* ... and a rate handed to the core for a currency is a token standing
   verbatim in the file, attached to that currency's name. *)
Theorem C20_cache_lookup_verbatim : forall o fixed src file now max_age rs cur t,
  cache_rates o fixed src file now max_age = ORates rs ->
  lookup cur rs = Some (Some t) ->
  o t = FNormal /\ occurs t file /\ occurs cur file /\
  match src with
  | SrcEU => exists k, occurs (P1 ++ cur ++ seps k ++ t ++ [39]) file
  | SrcUN => exists mid, occurs (FC ++ cur ++ FCE ++ mid ++ RT ++ t ++ RTE) file
  end.
Proof. exact cache_lookup_verbatim. Qed.
Print Assumptions C20_cache_lookup_verbatim.

(* ---- non-vacuity ------------------------------------------------------ *)

Definition ex_oracle : list N -> fcl :=
  fun t => match t with [] => FBad [] | _ :: _ => FNormal end.

Example C20_oracle_hypothesis_inhabited : ex_oracle [] <> FNormal.
Proof. discriminate. Qed.

Definition ex_eu_line (c r : string) : list N :=
  [9; 9] ++ B"<Cube currency='" ++ bytes_of_string c ++ B"' rate='" ++ bytes_of_string r ++ B"'/>" ++ [10].

Definition ex_eu : list N :=
  B"<Cube>" ++ [10] ++
  ex_eu_line "USD" "1.0744" ++ ex_eu_line "JPY" "164.74" ++ ex_eu_line "BGN" "1.9558" ++
  ex_eu_line "CZK" "25.133" ++ ex_eu_line "DKK" "7.4586" ++ ex_eu_line "GBP" "0.85628" ++
  ex_eu_line "HUF" "389.80" ++ ex_eu_line "PLN" "4.3225" ++ ex_eu_line "RON" "4.9758" ++
  ex_eu_line "SEK" "11.6620" ++ B"</Cube>".

Example C20_eu_accepts_example :
  exists rs, parse_eu ex_oracle true ex_eu = ROk rs /\ length rs = 11%nat /\
             lookup (B"GBP") rs = Some (Some (B"0.85628")).
Proof. eexists. vm_compute. repeat split. Qed.

Example C20_eu_prefix_example :
  exists rs, parse_eu ex_oracle true (firstn 367 ex_eu) = ROk rs /\ length rs = 10%nat.
Proof. eexists. vm_compute. split; reflexivity. Qed.

Example C20_eu_known_false_example : known_C20_eu_split_at ex_eu = false.
Proof. vm_compute. reflexivity. Qed.

Definition ex_un : list N :=
  B"<UN_OPERATIONAL_RATES_DATASET><UN_OPERATIONAL_RATES><f_curr_code>EUR</f_curr_code><rate>0.933</rate>" ++
  TRAILER.

Example C20_un_accepts_example :
  parse_un ex_oracle ex_un = ROk [(USD, None); (B"EUR", Some (B"0.933"))].
Proof. vm_compute. reflexivity. Qed.

Example C20_wf_hypothesis_inhabited :
  utf8_valid ex_un = true /\ wf_cont true ex_un = true /\
  utf8_valid (B"1;" ++ [195; 169; 226; 130; 172; 240; 159; 146; 169]) = true.
Proof. vm_compute. repeat split. Qed.

Example C20_framing_hit_example :
  load_cached (B"1700000000;<x/>") 1700000100 259200 = CHit (B";<x/>").
Proof. vm_compute. reflexivity. Qed.
