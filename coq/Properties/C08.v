(* C08 -- Operators bind as the manual's precedence table says.
   Property theorems only; each closed by [exact].

   Model of core/src/parser.rs: Lang/Parser.v ([run], one constructor of
   [call] per Rust function and per Rust loop).  Table, printers and the
   table's AST: Lang/Printer.v ([texp], [pr k e], [print_min], [print_full],
   [ex k e], [ast]).  Proofs: Lang/ParserBasics.v, Lang/ParserProofs.v. *)
From FendV Require Import Base.Prelude Lang.Syntax Lang.Parser Lang.Printer
  Lang.ParserBasics Lang.ParserProofs.
Open Scope nat_scope.

(* ---- the parser model is a total function of the token stream ---- *)

(* 20 units of fuel per token (+ the rank of the entry point + 1) always
   suffice: the depth of nested parser calls is linear in the number of
   tokens, for every token stream and every entry point. *)
Theorem C08_parser_terminates : forall f c ts,
  fuel_for c ts <= f -> run f c ts <> PFuel.
Proof. exact run_total. Qed.
Print Assumptions C08_parser_terminates.

(* more fuel never changes a result *)
Theorem C08_fuel_monotone : forall f f' c ts r,
  f <= f' -> run f c ts = r -> r <> PFuel -> run f' c ts = r.
Proof. exact run_mono. Qed.
Print Assumptions C08_fuel_monotone.

(* the reported recursion depth is the least sufficient fuel, and it is
   within the linear bound *)
Theorem C08_fuel_consumed_least : forall ts,
  let n := fuel_consumed ts in
  1 <= n /\ n <= fuel_for CExpression ts /\
  run n CExpression ts <> PFuel /\
  (forall m, m < n -> run m CExpression ts = PFuel).
Proof. exact fuel_consumed_spec. Qed.
Print Assumptions C08_fuel_consumed_least.

(* a successful call consumes input: at least one token for every parser
   function, possibly none for a loop that does not iterate *)
Theorem C08_parser_consumes : forall f c ts e r,
  run f c ts = POk e r -> length r + strict c <= length ts.
Proof. exact run_progress. Qed.
Print Assumptions C08_parser_consumes.

(* ---- the precedence theorem ---- *)

(* Level by level (the shape of DESIGN Appendix C): the parser function in
   charge of level k, started on the printing of e for a context of level k
   followed by any [rest] whose first token may follow such a context
   (nothing, ")", or an operator binding less tightly than k), returns
   exactly the table's AST for that printing and leaves [rest]. *)
Theorem C08_level_complete : forall e k rest f,
  k <= 15 -> follow k rest ->
  fuel_for (F k) (pr k e ++ rest) <= f ->
  run f (F k) (pr k e ++ rest) = POk (ex k e) rest.
Proof.
  exact (fun e k rest f Hk Hf Hfuel =>
    eq_trans (run_parse_at f (F k) (pr k e ++ rest) Hfuel)
             (proj1 (table_parse e) k rest Hk Hf)).
Qed.
Print Assumptions C08_level_complete.

(* Whole inputs: parsing the minimal-parenthesis printing of any table
   expression yields exactly the table's AST, with a Parens node exactly
   where the printer had to write parentheses. *)
Theorem C08_parse_print_min : forall e,
  parse_tokens (print_min e) = POk (ex 0 e) [].
Proof. exact parse_print_min. Qed.
Print Assumptions C08_parse_print_min.

(* The same for the token stream fend really parses: eval.rs puts one "("
   in front of the stream for every ")" in it, and the parser accepts the
   missing closers at the end; this only wraps the AST in Parens nodes. *)
Theorem C08_parse_print_min_completed : forall e,
  parse_tokens (complete_parens (print_min e)) =
  POk (parens_n (n_close (print_min e)) (ex 0 e)) [].
Proof. exact parse_print_min_completed. Qed.
Print Assumptions C08_parse_print_min_completed.

(* Modulo Parens nodes that AST is the table's grouping. *)
Theorem C08_grouping : forall k e, strip (ex k e) = ast e.
Proof. exact strip_ex. Qed.
Print Assumptions C08_grouping.

(* Hence, for any evaluator that treats Parens(x) as x, the minimal
   printing and the fully parenthesised printing have the same value, and
   both ASTs are the table's grouping. *)
Theorem C08_precedence : forall (V : Type) (ev : expr -> V),
  (forall a b, strip a = strip b -> ev a = ev b) ->
  forall e, exists a b,
    parse_tokens (complete_parens (print_min e)) = POk a [] /\
    parse_tokens (complete_parens (print_full e)) = POk b [] /\
    strip a = ast e /\ strip b = ast e /\ ev a = ev b.
Proof. exact value_min_full_completed. Qed.
Print Assumptions C08_precedence.

Theorem C08_precedence_tokens : forall (V : Type) (ev : expr -> V),
  (forall a b, strip a = strip b -> ev a = ev b) ->
  forall e, exists a b,
    parse_tokens (print_min e) = POk a [] /\
    parse_tokens (print_full e) = POk b [] /\
    strip a = ast e /\ strip b = ast e /\ ev a = ev b.
Proof. exact value_min_full. Qed.
Print Assumptions C08_precedence_tokens.

(* Adding (or removing) parentheses around any sub-expressions -- e and e'
   differ only in explicit parentheses -- changes neither the grouping nor
   the value. *)
Theorem C08_redundant_parens : forall (V : Type) (ev : expr -> V),
  (forall a b, strip a = strip b -> ev a = ev b) ->
  forall e e', unpar e = unpar e' -> exists a b,
    parse_tokens (print_min e) = POk a [] /\
    parse_tokens (print_min e') = POk b [] /\
    strip a = strip b /\ ev a = ev b.
Proof. exact redundant_parens. Qed.
Print Assumptions C08_redundant_parens.

(* ---- non-vacuity ---- *)

(* an evaluator satisfying the hypothesis of C08_precedence *)
Example C08_evaluator_hypothesis_inhabited :
  forall a b, strip a = strip b -> strip a = strip b.
Proof. exact (fun a b H => H). Qed.

(* follow sets are inhabited: "+" may follow a multiplicative context, ")"
   any context, and "*" may not follow a multiplicative context *)
Example C08_follow_inhabited :
  follow 12 [TSym Add] /\ follow 15 [TSym CloseParens; TSym Mul] /\ follow 0 [] /\
  ~ follow 12 [TSym Mul].
Proof. cbn. repeat split; discriminate. Qed.

(* two expressions that differ only in explicit parentheses *)
Example C08_unpar_inhabited :
  unpar (TBin OAdd (TPar (TBin OMul (TNumA []) (TNumA []))) (TNumA [])) =
  unpar (TBin OAdd (TBin OMul (TNumA []) (TPar (TNumA []))) (TNumA [])).
Proof. reflexivity. Qed.

(* a table expression using every level, its minimal printing and its parse *)
Example C08_all_levels :
  let n := TNumA [49%N] in let x := TIdA [120%N] in
  let t := TSeq (TAssign [120%N] (TBin OAdd n (TBin OMul (TJuxt [50%N] [107%N])
                   (TNeg (TPow (TFact x) (TNeg n))))))
                (TEq true (TBin OShl (TBin OAnd x n) (TBin OSub (TBin OSub x n) (TPar (TBin OSub x n))))
                          (TBin OPerm (TBin OComb x x) (TBin OOr (TBin OXor x x) x))) in
  parse_tokens (print_min t) = POk (ex 0 t) [] /\ length (print_min t) = 39.
Proof. vm_compute. split; reflexivity. Qed.
