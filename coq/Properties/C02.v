(* C02 -- Numeric literals and exact renderings round-trip in every base and
   style.  Property theorems only; each closed by [exact].
   Models: Fmt/Lex.v (literal lexer), Fmt/Format.v (integer / fraction /
   decimal printers, Brent cycle detection, termination test). *)
From FendV Require Import Base.Prelude Fmt.Rat Fmt.Format Fmt.Lex Fmt.IntFmtProofs Fmt.LexProofs
  Fmt.ExpansionProofs Fmt.RoundTripProofs Fmt.SepSwapProofs Fmt.BrentMinProofs Fmt.BrentFuelProofs.
From Coq Require Import QArith.
Open Scope N_scope.

(* Lexing the text of a structured literal (any base 2..36 and prefix form,
   either separator style, digit separators, upper/lower-case digits,
   fraction, recurring digits, exponent) followed by anything that cannot
   continue a number yields exactly the value the notation defines, the
   literal's base, and stops exactly at the end of the literal. *)
Theorem C02_lex_lit : forall sep l rest, lit_ok l = true -> ok_follow rest = true ->
  exists v, parse_number sep (show_lit sep l ++ rest) = LOk (v, l_base l, rest) /\
            (v == lit_value l)%Q.
Proof. exact lex_lit. Qed.
Print Assumptions C02_lex_lit.

(* Integer printing, every base 2..36, every natural number: never panics or
   runs out of fuel, flagged exact, and the text is the optional prefix
   followed by the canonical digits (they denote n; no leading zero). *)
Theorem C02_fmt_int_value : forall base wp n, 2 <= base_val base <= 36 ->
  exists f ds, format_biguint base wp None n = Ok (f, true) /\
    fbu_text f = (if wp then prefix_text base else []) ++ map dchar ds /\
    canon_ds (base_val base) n ds /\
    fbu_num_digits f = N.of_nat (length ds).
Proof. exact format_biguint_nosf. Qed.
Print Assumptions C02_fmt_int_value.

(* the u128 grouped divisor is base^rounds, fits 128 bits and is maximal *)
Theorem C02_group_divisor : forall b, 2 <= b <= 36 ->
  exists d r, group_params b = (d, r) /\ d = b ^ r /\ 1 <= r /\ d <= U128MAX /\ U128MAX / b <= d.
Proof. exact group_params_spec. Qed.
Print Assumptions C02_group_divisor.

(* terminates_in_base decides whether the expansion terminates *)
Theorem C02_terminates_spec : forall b x, 2 <= b -> wfr x = true -> reduced x = true ->
  exists t, terminates_in_base b x = Ok t /\ (t = true <-> exists k, (rden x | b ^ k)).
Proof. exact terminates_spec_lemma. Qed.
Print Assumptions C02_terminates_spec.

(* The recurring rendering  ip . P ( R )  denotes the fraction -- for ANY fuel
   on which the run returns Ok (geometric-series identity). *)
Theorem C02_expansion_value : forall fuel base num den sep neg ip ip_text sign text ex,
  2 <= base_val base <= 36 -> den <> 0 -> num < den ->
  format_trailing_digits fuel base num den AllDigits (Ok false) sep neg ip ip_text = Ok (sign, text, ex) ->
  exists P R : list N,
    text = ip_text ++ [decimal_char sep] ++ map dchar P ++ [40] ++ map dchar R ++ [41] /\
    R <> [] /\ Forall (fun d => d < base_val base) P /\ Forall (fun d => d < base_val base) R /\
    ex = true /\ sign = neg /\
    (qN num / qN den ==
     qN (digits_val (base_val base) P) / qN (base_val base ^ N.of_nat (length P)) +
     qN (digits_val (base_val base) R) /
       qN ((base_val base ^ N.of_nat (length R) - 1) * base_val base ^ N.of_nat (length P)))%Q.
Proof. exact expansion_value_lemma. Qed.
Print Assumptions C02_expansion_value.

(* The pair (pre-period mu, period lam) found by Brent's algorithm is a
   genuine repetition of the remainder sequence r_(i+1) = (b r_i) mod den, and
   the collected digits are the first mu+lam digits of the long division. *)
Theorem C02_expansion_cycle : forall fuel base den x0 lam mu out,
  2 <= base_val base <= 36 -> x0 < den ->
  brents_algorithm fuel base den x0 = Ok (lam, mu, out) ->
  1 <= lam /\
  iter_rem (base_val base) den (N.to_nat lam) (iter_rem (base_val base) den (N.to_nat mu) x0)
  = iter_rem (base_val base) den (N.to_nat mu) x0 /\
  out = map dchar (iter_digits (base_val base) den (N.to_nat mu + N.to_nat lam) x0).
Proof. exact expansion_cycle_lemma. Qed.
Print Assumptions C02_expansion_cycle.

(* ... and it is the CANONICAL one (the stretch item, proved): whenever the
   remainder sequence repeats, r_(m+l) = r_m with l >= 1, the pre-period found
   is at most m and the period found divides l.  Hence the rendering
   ip . P ( R ) is digit for digit the minimal expansion -- for any fuel on
   which the run returns Ok. *)
Theorem C02_expansion_canonical : forall fuel base den x0 lam mu out,
  2 <= base_val base <= 36 -> x0 < den ->
  brents_algorithm fuel base den x0 = Ok (lam, mu, out) ->
  forall m l, (1 <= l)%nat ->
    iter_rem (base_val base) den (m + l) x0 = iter_rem (base_val base) den m x0 ->
    (N.to_nat mu <= m)%nat /\ exists k, l = (k * N.to_nat lam)%nat.
Proof. exact brents_minimal. Qed.
Print Assumptions C02_expansion_canonical.

(* FUEL SUFFICIENCY.  On a remainder sequence that never reaches zero (what a
   non-terminating expansion of a fraction in lowest terms gives, second
   theorem) 3*den + 3 units of fuel are enough: Brent's algorithm returns, and
   so does the recurring branch of format_trailing_digits (no panic either).
   Together with C02_expansion_value / _canonical (any fuel on which the run
   returns Ok) the fuel argument is thereby only a termination device. *)
Theorem C02_brent_fuel : forall base den x0 fuel,
  2 <= base_val base <= 36 -> x0 < den ->
  (forall i, iter_rem (base_val base) den i x0 <> 0) ->
  (3 * N.to_nat den + 3 <= fuel)%nat ->
  exists lam mu out, brents_algorithm fuel base den x0 = Ok (lam, mu, out).
Proof. exact brent_fuel_lemma. Qed.
Print Assumptions C02_brent_fuel.

Theorem C02_nonterminating_nonzero : forall b num den, 2 <= b -> den <> 0 -> N.gcd num den = 1 ->
  (forall k, ~ (den | b ^ k)) -> forall i, iter_rem b den i (num mod den) <> 0.
Proof. exact nonterminating_nonzero. Qed.
Print Assumptions C02_nonterminating_nonzero.

Theorem C02_recurring_total : forall fuel base num den sep neg ip ip_text,
  2 <= base_val base <= 36 -> num < den ->
  (forall i, iter_rem (base_val base) den i num <> 0) ->
  (3 * N.to_nat den + 3 <= fuel)%nat ->
  exists r, format_trailing_digits fuel base num den AllDigits (Ok false) sep neg ip ip_text = Ok r.
Proof. exact ftd_recurring_total. Qed.
Print Assumptions C02_recurring_total.

(* improper and mixed fractions read back as the fraction *)
Theorem C02_fmt_fraction_value : forall x base sep neg mixed s ex, base_prefix_ok base = true ->
  rden x <> 0 ->
  format_as_fraction x base neg mixed = Ok (s, ex) ->
  ex = true /\ exists v, read_rendering sep base s = Some v /\
                         (v == signedQ neg (qN (rnum x) / qN (rden x)))%Q.
Proof. exact format_as_fraction_rt. Qed.
Print Assumptions C02_fmt_fraction_value.

(* THE ROUND TRIP.  Whatever Value::format prints for an exact rational and
   flags exact -- integer, terminating or recurring expansion, improper or
   mixed fraction, auto, n dp -- in any base 2..36 (prefixed or not), either
   separator style, any fuel: reading the text back through the literal lexer
   (base prefix restored for prefix-less bases; minus sign, `/` and the mixed
   fraction read as the notation says) gives the same value.
   (`n sf` renderings are treated in C03.) *)
Theorem C02_roundtrip : forall fuel st base sep x s,
  base_prefix_ok base = true -> wfr x = true -> not_sf st = true ->
  fmt_value fuel true st base sep x = Ok (s, true) ->
  exists v, read_rendering sep base s = Some v /\ (v == qval x)%Q.
Proof. exact fmt_value_roundtrip. Qed.
Print Assumptions C02_roundtrip.

(* Switching the separator style only swaps '.' and ',': same flag, same
   errors, the text mapped through the swap -- every style, base, value. *)
Theorem C02_sep_swap : forall fuel vexact st base x,
  fmt_value fuel vexact st base SepComma x = swap2 (fmt_value fuel vexact st base SepDot x).
Proof. exact sep_swap_lemma. Qed.
Print Assumptions C02_sep_swap.

(* non-vacuity *)
Example C02_lit_inhabited :
  lit_ok (mklit BHex (Some (mkdrun (mkwd 1 false) [(WUnderscore, mkwd 15 true)]))
                (Frac (mkdrun (mkwd 8 false) []) (Some (mkdrun (mkwd 3 false) [(WThousands, mkwd 10 false)])))
                None) = true
  /\ lit_ok (mklit (BPlain 10) (Some (mkdrun (mkwd 1 false) [(WThousands, mkwd 2 false)]))
                   (RecOnly (mkdrun (mkwd 3 false) [])) (Some (true, ESMinus, mkdrun (mkwd 2 false) []))) = true
  /\ ok_follow [32; 43] = true.
Proof. repeat split; reflexivity. Qed.

Example C02_canonical_inhabited :
  brents_algorithm 50 (BPlain 10) 12 1 = Ok (1, 2, [48; 56; 51]).   (* 1/12 = 0.08(3) *)
Proof. vm_compute. reflexivity. Qed.

Example C02_roundtrip_inhabited :
  fmt_value 100 true SFloat (BPlain 7) SepComma (mkrat true 22 7) = Ok ([45; 51; 44; 49], true)
  /\ fmt_value 100 true SFloat (BCustom 12) SepDot (mkrat false 1 7)
     = Ok ([49; 50; 35; 48; 46; 40; 49; 56; 54; 97; 51; 53; 41], true)
  /\ fmt_value 100 true SExact BHex SepDot (mkrat true 16 6) = Ok ([45; 48; 120; 50; 32; 48; 120; 50; 47; 48; 120; 51], true)
  /\ wfr (mkrat true 22 7) = true /\ base_prefix_ok (BCustom 12) = true.
Proof. repeat split; vm_compute; reflexivity. Qed.
