(* C05 -- Dimensional analysis is sound: incompatible quantities never combine.
   Property theorems only; each closed by [exact].

   [vdim v] is the physics dimension of a value: for every base unit k, the
   sum over the value's named units of exponent x the unit's base-unit
   decomposition, with celsius and fahrenheit identified with kelvin
   (Units/Dim.v).  The theorems are about the model of num/unit.rs for ALL
   values (arbitrary unit lists, base-unit maps, rational exponents), with no
   exception.

   History: until fend commit 1210896 Unit::reduce_hashmap renamed celsius /
   fahrenheit to kelvin with HashMap::insert, replacing an existing kelvin
   entry, and the addition clause was false (known_findings.d/C05.json, class
   temperature_mix_overwrite, now "fixed").  The model of the old code and its
   refutation are kept in Units/OldReduce.v (C05_add_same_dim_old_refuted). *)
From FendV Require Import Base.Prelude Units.Defs Units.Algebra Units.Lookup Units.Dim Units.DimProofs Units.OldReduce
     Units.Index Units.Legality Units.Table Units.TableProofs05.
From FendV Require Import Units.Generated.UnitTable.
From Coq Require Import QArith.
Close Scope Q_scope.
Open Scope N_scope.

(* the hash map of a unit expression is the sum of exponent x base decomposition *)
Theorem C05_hashmap_is_sum : forall us h s k,
  to_hashmap_and_scale us = Ok (h, s) -> (dimf h k == udim us k)%Q.
Proof. exact to_hashmap_dimf. Qed.
Print Assumptions C05_hashmap_is_sum.

(* multiplying, dividing and raising to a rational power combine exponents additively *)
Theorem C05_mul_dim : forall a b k, (vdim (v_mul a b) k == vdim a k + vdim b k)%Q.
Proof. exact mul_dim. Qed.
Print Assumptions C05_mul_dim.

Theorem C05_div_dim : forall a b v k, v_div a b = Ok v -> (vdim v k == vdim a k - vdim b k)%Q.
Proof. exact div_dim. Qed.
Print Assumptions C05_div_dim.

Theorem C05_pow_dim : forall a q v k, v_pow a (num_value q) = Ok v -> (vdim v k == q * vdim a k)%Q.
Proof. exact pow_dim. Qed.
Print Assumptions C05_pow_dim.

(* adding (subtracting is adding the negation): the result carries the left
   operand's units, and either the dimensions are equal or the right operand
   is zero and the magnitude is the left operand's *)
Theorem C05_add_needs_same_dim : forall a b v,
  v_add a b = Ok v ->
  v_units v = v_units a /\
  ((v_is_zero b = true /\ v_val v = v_val a) \/ (forall k, (vdim a k == vdim b k)%Q)).
Proof. exact add_needs_same_dim. Qed.
Print Assumptions C05_add_needs_same_dim.

Theorem C05_add_incompatible_is_error : forall a b,
  v_is_zero b = false -> (exists k, ~ (vdim a k == vdim b k)%Q) -> forall v, v_add a b <> Ok v.
Proof. exact add_incompatible. Qed.
Print Assumptions C05_add_incompatible_is_error.

(* converting needs equal dimensions; the result carries the target's units *)
Theorem C05_convert_needs_same_dim : forall a b v,
  v_convert_to a b = Ok v ->
  v_units v = v_units b /\ forall k, (vdim a k == vdim b k)%Q.
Proof. exact convert_needs_same_dim. Qed.
Print Assumptions C05_convert_needs_same_dim.

(* functions that need a pure number (ln, log, factorial, mod, bitwise, nCr,
   nPr, and the exponent of a power) reject dimensioned arguments *)
Theorem C05_unitless_required : forall a r,
  v_require_unitless a = Ok r -> forall k, (vdim a k == 0)%Q.
Proof. exact unitless_required. Qed.
Print Assumptions C05_unitless_required.

(* renaming the temperature bases adds the exponents (every hash map the code
   builds has distinct keys: C05_hashmap_keys_distinct) *)
Theorem C05_reduce_hashmap : forall h h' adj off,
  reduce_hashmap h = Ok (h', adj, off) -> nodup_str (map fst h) = true ->
  nodup_str (map fst h') = true /\ forall k, (dimf h' k == tdim (dimf h) k)%Q.
Proof. exact reduce_hashmap_dims. Qed.
Print Assumptions C05_reduce_hashmap.

Theorem C05_hashmap_keys_distinct : forall us h s,
  to_hashmap_and_scale us = Ok (h, s) -> nodup_str (map fst h) = true.
Proof. exact to_hashmap_nodup. Qed.
Print Assumptions C05_hashmap_keys_distinct.

(* whole expressions over ANY resolver of names: a successful evaluation is a
   physically well-dimensioned expression and the result has the dimension
   physics assigns; an expression physics rejects is never a number *)
Theorem C05_sound : forall resolve e v,
  meval resolve e = Ok v ->
  exists f, HasDim resolve e f /\ forall k, (vdim v k == f k)%Q.
Proof. exact meval_sound. Qed.
Print Assumptions C05_sound.

Theorem C05_ill_dimensioned_is_error : forall resolve e,
  (forall f, ~ HasDim resolve e f) -> forall v, meval resolve e <> Ok v.
Proof. exact ill_dimensioned_is_error. Qed.
Print Assumptions C05_ill_dimensioned_is_error.

(* documentation of the repaired defect: with the reduce_hashmap of before
   commit 1210896 (Units/OldReduce.v) a sum of different dimensions was
   accepted: (1 celsius kelvin) + (1 kelvin); the current model rejects it *)
Theorem C05_add_same_dim_old_refuted :
  exists a b v, v_add_old a b = Ok v /\ v_is_zero b = false /\ ~ (forall k, (vdim a k == vdim b k)%Q).
Proof. exact add_same_dim_old_refuted. Qed.
Print Assumptions C05_add_same_dim_old_refuted.

Theorem C05_old_witness_now_rejected : v_add w_ck w_k = Err EIncompatible.
Proof. exact witness_now_rejected. Qed.
Print Assumptions C05_old_witness_now_rejected.

(* the dimension of every name of the regenerated table: the model's
   to_hashmap_and_scale agrees with the tree's own on every name *)
Theorem C05_name_dimensions : forall n, In n all_names -> chk_reduced_agrees n = true.
Proof. exact reduced_agrees. Qed.
Print Assumptions C05_name_dimensions.

(* --- non-vacuity --- *)
(* (3 km / 2 s) + 5 mph evaluates, is unmixed, and is a velocity *)
Example C05_sound_inhabited :
  match meval model_resolve ex_speed with
  | Ok v => Qeq_bool (vdim v [109;101;116;101;114]) 1 && Qeq_bool (vdim v [115;101;99;111;110;100]) (-1)
            && Qeq_bool (vdim v s_kelvin) 0
  | _ => false
  end = true.
Proof. vm_compute. reflexivity. Qed.

(* 1 km + 1 s is an error *)
Example C05_incompatible_inhabited :
  match meval model_resolve ex_bad with Err EIncompatible => true | _ => false end = true.
Proof. vm_compute. reflexivity. Qed.
