(* C05 -- Dimensional analysis is sound: incompatible quantities never combine.
   Property theorems only; each closed by [exact].

   [vdim v] is the physics dimension of a value: for every base unit k, the
   sum over the value's named units of exponent x the unit's base-unit
   decomposition, with celsius and fahrenheit identified with kelvin
   (Units/Dim.v).  The theorems are about the model of num/unit.rs for ALL
   values (arbitrary unit lists, base-unit maps, rational exponents).

   Known defect (known_findings.d/C05.json, class temperature_mix_overwrite):
   Unit::reduce_hashmap renames celsius / fahrenheit to kelvin with
   HashMap::insert, which REPLACES an existing kelvin entry instead of adding
   to it.  The full-strength statement "a successful addition has equal
   dimensions" is therefore refuted (C05_add_same_dim_refuted); it holds
   whenever no hash map met by an addition, conversion or pure-number function
   holds two of celsius / fahrenheit / kelvin ([unmixed], [unmixed_tree]). *)
From FendV Require Import Base.Prelude Units.Defs Units.Algebra Units.Lookup Units.Dim Units.DimProofs
     Units.Index Units.Legality Units.Table Units.TableProofs05.
From FendV Require Import Units.Generated.UnitTable.
From Coq Require Import QArith.
Close Scope Q_scope.
Open Scope N_scope.

(* the hash map of a unit expression is the sum of exponent x base decomposition *)
Theorem C05_hashmap_is_sum : forall us h s k,
  to_hashmap_and_scale us = Ok (h, s) -> (dimf h k == udim us k)%Q.
Proof. exact to_hashmap_dimf. Qed.
Print Assumptions C05_hashmap_is_sum.

(* multiplying, dividing and raising to a rational power combine exponents additively *)
Theorem C05_mul_dim : forall a b k, (vdim (v_mul a b) k == vdim a k + vdim b k)%Q.
Proof. exact mul_dim. Qed.
Print Assumptions C05_mul_dim.

Theorem C05_div_dim : forall a b v k, v_div a b = Ok v -> (vdim v k == vdim a k - vdim b k)%Q.
Proof. exact div_dim. Qed.
Print Assumptions C05_div_dim.

Theorem C05_pow_dim : forall a q v k, v_pow a (num_value q) = Ok v -> (vdim v k == q * vdim a k)%Q.
Proof. exact pow_dim. Qed.
Print Assumptions C05_pow_dim.

(* adding (subtracting is adding the negation): equal dimensions, or the right
   operand is zero and the sum is the left operand unchanged *)
Theorem C05_add_needs_same_dim : forall a b v,
  v_add a b = Ok v ->
  (v_is_zero b = true /\ v = a) \/
  (v_units v = v_units a /\
   (unmixed (v_units a) = true -> unmixed (v_units b) = true -> forall k, (vdim a k == vdim b k)%Q)).
Proof. exact add_needs_same_dim. Qed.
Print Assumptions C05_add_needs_same_dim.

Theorem C05_add_incompatible_is_error : forall a b,
  v_is_zero b = false -> unmixed (v_units a) = true -> unmixed (v_units b) = true ->
  (exists k, ~ (vdim a k == vdim b k)%Q) -> forall v, v_add a b <> Ok v.
Proof. exact add_incompatible. Qed.
Print Assumptions C05_add_incompatible_is_error.

(* the same statement without the [unmixed] hypotheses is false for the code
   as it is: (1 celsius kelvin) + (1 kelvin) is accepted *)
Theorem C05_add_same_dim_refuted :
  exists a b v, v_add a b = Ok v /\ v_is_zero b = false /\ ~ (forall k, (vdim a k == vdim b k)%Q).
Proof. exact add_same_dim_refuted. Qed.
Print Assumptions C05_add_same_dim_refuted.

(* converting needs equal dimensions; the result carries the target's units *)
Theorem C05_convert_needs_same_dim : forall a b v,
  v_convert_to a b = Ok v ->
  v_units v = v_units b /\
  (unmixed (v_units a) = true -> unmixed (v_units b) = true -> forall k, (vdim a k == vdim b k)%Q).
Proof. exact convert_needs_same_dim. Qed.
Print Assumptions C05_convert_needs_same_dim.

(* functions that need a pure number (ln, log, factorial, mod, bitwise, nCr,
   nPr, and the exponent of a power) reject dimensioned arguments *)
Theorem C05_unitless_required : forall a r,
  v_require_unitless a = Ok r -> unmixed (v_units a) = true -> forall k, (vdim a k == 0)%Q.
Proof. exact unitless_required. Qed.
Print Assumptions C05_unitless_required.

(* renaming temperature bases is exact on maps that do not mix them *)
Theorem C05_reduce_hashmap_except_known : forall h h' adj off,
  reduce_hashmap h = Ok (h', adj, off) -> unmixed_map h = true ->
  nodup_str (map fst h') = true /\ forall k, (dimf h' k == tdim (dimf h) k)%Q.
Proof. exact reduce_hashmap_dims. Qed.
Print Assumptions C05_reduce_hashmap_except_known.

(* whole expressions over ANY resolver of names: a successful evaluation is a
   physically well-dimensioned expression and the result has the dimension
   physics assigns; an expression physics rejects is never a number *)
Theorem C05_sound_except_known : forall resolve e v,
  meval resolve e = Ok v -> unmixed_tree resolve e = true ->
  exists f, HasDim resolve e f /\ forall k, (vdim v k == f k)%Q.
Proof. exact meval_sound. Qed.
Print Assumptions C05_sound_except_known.

Theorem C05_ill_dimensioned_is_error : forall resolve e,
  unmixed_tree resolve e = true -> (forall f, ~ HasDim resolve e f) -> forall v, meval resolve e <> Ok v.
Proof. exact ill_dimensioned_is_error. Qed.
Print Assumptions C05_ill_dimensioned_is_error.

(* the dimension of every name of the regenerated table: the model's
   to_hashmap_and_scale agrees with the tree's own on every name *)
Theorem C05_name_dimensions : forall n, In n all_names -> chk_reduced_agrees n = true.
Proof. exact reduced_agrees. Qed.
Print Assumptions C05_name_dimensions.

(* --- non-vacuity --- *)
(* (3 km / 2 s) + 5 mph evaluates, is unmixed, and is a velocity *)
Example C05_sound_inhabited :
  match meval model_resolve ex_speed with
  | Ok v => unmixed_tree model_resolve ex_speed
            && Qeq_bool (vdim v [109;101;116;101;114]) 1 && Qeq_bool (vdim v [115;101;99;111;110;100]) (-1)
            && Qeq_bool (vdim v s_kelvin) 0
  | _ => false
  end = true.
Proof. vm_compute. reflexivity. Qed.

(* 1 km + 1 s is an error *)
Example C05_incompatible_inhabited :
  match meval model_resolve ex_bad with Err EIncompatible => true | _ => false end = true.
Proof. vm_compute. reflexivity. Qed.
