(* C18 — Strings, JSON escaping and inline substitution preserve text
   faithfully.  Property theorems only; each closed by [exact]. *)
From FendV Require Import Base.Prelude Text.Json Text.JsonProofs.
Open Scope N_scope.

(* The JSON escaper never reaches one of its four unwrap()s on Unicode text,
   its output is printable ASCII (hence valid between quotes together with
   the next clause) and an RFC 8259 string decoder maps it back to the
   original text -- for every list of Unicode scalar values. *)
Theorem C18_json_roundtrip : forall s, forallb is_scalar s = true ->
  exists o, escape s = Ok o /\ json_decode o = Some s /\
            Forall (fun k => 32 <= k <= 126) o.
Proof. exact json_roundtrip_lemma. Qed.
Print Assumptions C18_json_roundtrip.

(* Inline substitution: the parts are the raw cut of the input with each
   [[expr]] replaced by exactly what the evaluator returns for expr ... *)
Theorem C18_inline_output_is_eval : forall eval input,
  substitute eval input = map (fill eval) (scan_raw input [] false false []).
Proof. exact inline_parts_are_fill. Qed.
Print Assumptions C18_inline_output_is_eval.

(* ... and the raw cut loses nothing: concatenating the sources of the parts
   (text as is, expressions between their brackets) gives back the input. *)
Theorem C18_inline_text_preserved : forall input,
  concat (map raw_source (scan_raw input [] false false [])) = input.
Proof. exact inline_text_preserved_lemma. Qed.
Print Assumptions C18_inline_text_preserved.

(* The JSON form is an array of one object per part, in order, whose
   "contents" member decodes to the part's text. *)
Theorem C18_inline_json : forall ps,
  Forall (fun p => forallb is_scalar (part_contents p) = true) ps ->
  exists bodies,
    to_json ps = Ok (91 :: join_objs (map (fun pb => part_obj (fst pb) (snd pb)) (combine ps bodies)) true ++ [93])
    /\ length bodies = length ps
    /\ Forall2 (fun p b => json_decode b = Some (part_contents p)
                           /\ Forall (fun k => 32 <= k <= 126) b) ps bodies.
Proof. exact inline_json_lemma. Qed.
Print Assumptions C18_inline_json.

(* non-vacuity: a text mixing ASCII, escapes, a control character, a BMP
   character and an astral character satisfies the hypothesis *)
Example C18_hypothesis_inhabited :
  forallb is_scalar [97; 34; 92; 10; 0; 233; 8364; 119882; 1114111] = true.
Proof. reflexivity. Qed.
