(* C18 — Strings, JSON escaping and inline substitution preserve text
   faithfully.  Property theorems only; each closed by [exact]. *)
From FendV Require Import Base.Prelude Text.Json Text.JsonProofs Fmt.StringLit Fmt.StringLitProofs.
Open Scope N_scope.

(* The JSON escaper never reaches one of its four unwrap()s on Unicode text,
   its output is printable ASCII (hence valid between quotes together with
   the next clause) and an RFC 8259 string decoder maps it back to the
   original text -- for every list of Unicode scalar values. *)
Theorem C18_json_roundtrip : forall s, forallb is_scalar s = true ->
  exists o, escape s = Ok o /\ json_decode o = Some s /\
            Forall (fun k => 32 <= k <= 126) o.
Proof. exact json_roundtrip_lemma. Qed.
Print Assumptions C18_json_roundtrip.

(* Inline substitution: the parts are the raw cut of the input with each
   [[expr]] replaced by exactly what the evaluator returns for expr ... *)
Theorem C18_inline_output_is_eval : forall eval input,
  substitute eval input = map (fill eval) (scan_raw input [] false false []).
Proof. exact inline_parts_are_fill. Qed.
Print Assumptions C18_inline_output_is_eval.

(* ... and the raw cut loses nothing: concatenating the sources of the parts
   (text as is, expressions between their brackets) gives back the input. *)
Theorem C18_inline_text_preserved : forall input,
  concat (map raw_source (scan_raw input [] false false [])) = input.
Proof. exact inline_text_preserved_lemma. Qed.
Print Assumptions C18_inline_text_preserved.

(* The JSON form is an array of one object per part, in order, whose
   "contents" member decodes to the part's text. *)
Theorem C18_inline_json : forall ps,
  Forall (fun p => forallb is_scalar (part_contents p) = true) ps ->
  exists bodies,
    to_json ps = Ok (91 :: join_objs (map (fun pb => part_obj (fst pb) (snd pb)) (combine ps bodies)) true ++ [93])
    /\ length bodies = length ps
    /\ Forall2 (fun p b => json_decode b = Some (part_contents p)
                           /\ Forall (fun k => 32 <= k <= 126) b) ps bodies.
Proof. exact inline_json_lemma. Qed.
Print Assumptions C18_inline_json.

(* A string literal denotes exactly the text its escape sequences define:
   for every structured literal (plain characters, each documented named
   escape, \xHH, \u{...}, \^X, \z followed by ASCII whitespace), in either
   quote style, with anything after the closing quote, the model of
   lexer.rs parse_string_literal returns the denoted text and the rest. *)
Theorem C18_strlit_roundtrip : forall term items rest,
  (term = 34 \/ term = 39) ->
  wf_items term items = true ->
  parse_string_literal term (show_items items ++ term :: rest) =
  SLOk (denote_items items, rest).
Proof. exact strlit_roundtrip. Qed.
Print Assumptions C18_strlit_roundtrip.

Example C18_strlit_hypothesis_inhabited :
  wf_items 34 [Plain 97; EscNamed 110; EscHex 4 1 false; EscUni [49; 100; 53; 52; 97]; EscCtrl 64;
               EscZ [32; 10]; Plain 160; Plain 39] = true.
Proof. vm_compute. reflexivity. Qed.

(* non-vacuity: a text mixing ASCII, escapes, a control character, a BMP
   character and an astral character satisfies the hypothesis *)
Example C18_hypothesis_inhabited :
  forallb is_scalar [97; 34; 92; 10; 0; 233; 8364; 119882; 1114111] = true.
Proof. reflexivity. Qed.
