(* C11 -- Every built-in and custom unit name resolves, coherently with its
   family.  Property theorems only; each closed by [exact].

   The finite theorems range over Units/Generated/UnitTable.v, which
   tools/gen_tables.py regenerates on every run from the fend tree being
   checked: gen_defs / gen_short / gen_currencies are the tables verbatim,
   gen_names and gen_prefix_status are what the tree's own resolver returned
   for every name and for every prefix ++ name.  [q_ref] is the faithful model
   of query_unit_internal over that table in the default context.
   known_unreachable holds the entries of the one table defect that is still
   open in known_findings.d/C11.json (T, link); the theorem holds for all other
   entries, and for those too once the table is repaired (the list is only an
   excuse, the statement does not claim that the listed entries fail).  The
   former excuses for sqdm cbdm dm2 dm3 (fend commit e3398ae) and gal (d57dc01)
   are gone: those clauses hold without exception. *)
From FendV Require Import Base.Prelude Units.Defs Units.Algebra Units.Lookup Units.Index
     Units.Legality Units.LookupProofs Units.Table Units.TableProofs.
From FendV Require Import Units.Generated.UnitTable.
Open Scope N_scope.

(* --- every name resolves ------------------------------------------------ *)

(* every singular and plural of the table and every currency identifier (with
   an exchange-rate handler present) is accepted by the tree's resolver *)
Theorem C11_all_names_resolve : forall n,
  In n table_names \/ In n gen_currencies ->
  exists v r, assoc gen_names n = Some (LOk (v, r)).
Proof. exact all_names_resolve. Qed.
Print Assumptions C11_all_names_resolve.

(* the lookup + algebra model, run inside the kernel on every name, returns
   exactly the number the tree's resolver returned (prefix, names, alias flag,
   base-unit map, scale, exactness) *)
Theorem C11_model_matches_implementation : forall n,
  In n all_names -> chk_model_agrees n = true.
Proof. exact model_matches_implementation. Qed.
Print Assumptions C11_model_matches_implementation.

(* --- coherence ---------------------------------------------------------- *)

Theorem C11_singular_plural_same : forall s p d,
  In (s, p, d) (t_defs the_tables) -> p <> [] ->
  exists q1 q2, impl_quantity s = Some q1 /\ impl_quantity p = Some q2 /\ quantity_eqb q1 q2 = true.
Proof. exact singular_plural_same. Qed.
Print Assumptions C11_singular_plural_same.

(* a definition whose body is a single name (X = Y, X = s@Y, X = l@Y, X = =Y)
   denotes the same quantity as that name *)
Theorem C11_short_long_agree : forall d,
  In d (t_defs the_tables) -> chk_short_long d = true.
Proof. exact short_long_agree. Qed.
Print Assumptions C11_short_long_agree.

(* sqX = X2 = X^2 and cbX = X3 = X^3 for every stem X that resolves to a
   dimensioned quantity *)
Theorem C11_sq_cb_family : forall n x k qx,
  In n table_names -> In (x, k) (family_of n) -> stem_quantity x = Some qx ->
  exists want, quantity_pow qx k = Some want /\ opt_quantity_eqb (impl_quantity n) (Some want) = true.
Proof. exact sq_cb_family. Qed.
Print Assumptions C11_sq_cb_family.

(* --- duplicates: deterministic, first definition wins --------------------- *)

(* general, for every table: the scan returns the first definition carrying
   the name *)
Theorem C11_lookup_first_match_deterministic : forall T ident,
  find_currency (t_currencies T) ident = None ->
  builtin_query T ident false true = option_map norm_def (first_def (t_defs T) ident).
Proof. exact builtin_query_first_match. Qed.
Print Assumptions C11_lookup_first_match_deterministic.

(* on this table: lookup selects the first definition of every name ... *)
Theorem C11_lookup_selects_first_definition : forall n,
  In n all_names -> chk_lookup_first n = true.
Proof. exact lookup_selects_first_definition. Qed.
Print Assumptions C11_lookup_selects_first_definition.

(* ... and the quantity the tree's resolver returns for the name is the one
   the tree's evaluator computes for the body of that definition *)
Theorem C11_name_denotes_selected_definition : forall n,
  In n all_names -> chk_first_definition n = true.
Proof. exact name_denotes_selected_definition. Qed.
Print Assumptions C11_name_denotes_selected_definition.

(* --- prefixes ----------------------------------------------------------- *)

(* general: what a prefixed name is, when it is not itself a name and no
   earlier split applies *)
Theorem C11_prefixed_resolution : forall ev cur T C p u a b,
  p <> [] -> u <> [] ->
  whole_found (query_unit_internal T C) (p ++ u) = false ->
  has_earlier_split (query_unit_internal T C) p u = false ->
  query_unit_internal T C p true true false = Some a ->
  query_unit_internal T C u false true false = Some b ->
  query_unit_cs ev cur T C (p ++ u) true =
  (ldo a' <- expr_unit ev cur a;
   ldo b' <- expr_unit ev cur b;
   if rules_compatible (ud_rule a') (ud_rule b') then construct_prefixed_unit a' b' else LNotFound).
Proof. exact prefixed_resolution. Qed.
Print Assumptions C11_prefixed_resolution.

(* on this table, for EVERY prefix-side name p and EVERY name u (code = what
   the tree's resolver answered for p ++ u: 0 resolves, 1 unknown identifier):
   the prefixed name resolves iff the rules permit it *)
Theorem C11_prefix_legality : forall p codes u ru code,
  In (p, codes) gen_prefix_status ->
  In ((u, ru), code) (combine (name_rules q_ref all_names) codes) ->
  pair_is_plain q_ref p u = true ->
  (legal_rules (prefix_side_rule q_ref p) ru = true -> code = 0) /\
  (legal_rules (prefix_side_rule q_ref p) ru = false ->
   code = 1 \/ (code = 0 /\ ci_rescued (p ++ u) = true)).
Proof. exact prefix_legality. Qed.
Print Assumptions C11_prefix_legality.

Theorem C11_no_prefix_units_reject : forall p codes u code,
  In (p, codes) gen_prefix_status ->
  In ((u, Some RNone), code) (combine (name_rules q_ref all_names) codes) ->
  pair_is_plain q_ref p u = true ->
  code = 1 \/ (code = 0 /\ ci_rescued (p ++ u) = true).
Proof. exact no_prefix_units_reject. Qed.
Print Assumptions C11_no_prefix_units_reject.

(* the status rows are complete: one row per prefix-side name, one code per name *)
Theorem C11_prefix_rows_complete :
  (forall p, In p (all_names ++ map fst gen_short) ->
             (exists r, prefix_side_rule q_ref p = Some r /\ is_prefix_rule r = true) ->
             mem_str p (map fst gen_prefix_status) = true) /\
  (forall p codes, In (p, codes) gen_prefix_status -> length codes = length all_names).
Proof. exact (conj prefixes_covered rows_have_all_names). Qed.
Print Assumptions C11_prefix_rows_complete.

(* a definition that permits prefixes is the one lookup uses for its names *)
Theorem C11_prefixable_defs_reachable : forall s p d n,
  In (s, p, d) (t_defs the_tables) -> allows_prefix (rule_of_def (s, p, d)) = true ->
  mem_str s known_unreachable = false -> In n (def_names (s, p, d)) ->
  name_side_rule q_ref n = Some (rule_of_def (s, p, d)).
Proof. exact prefixable_defs_reachable. Qed.
Print Assumptions C11_prefixable_defs_reachable.

(* --- custom units ------------------------------------------------------- *)

(* general, for every table, context and identifier: a matching custom unit is
   what the name denotes, whatever the built-in tables contain, and it is the
   first matching entry of the custom list *)
Theorem C11_custom_precedence : forall ev cur T C ident cs d,
  find_custom (c_custom C) ident cs = Some d ->
  query_unit_cs ev cur T C ident cs = (ldo u <- expr_unit ev cur d; LOk (ud_value u)).
Proof. exact custom_precedence. Qed.
Print Assumptions C11_custom_precedence.

Theorem C11_custom_first_match : forall l ident cs,
  find_custom l ident cs = option_map norm_def (find (custom_matches ident cs) l).
Proof. exact find_custom_spec. Qed.
Print Assumptions C11_custom_first_match.

(* a unit keeps the prefix rule written in its definition (custom or built-in) *)
Theorem C11_rule_is_as_written : forall ev cur d u,
  expr_unit ev cur d = LOk u -> ud_rule u = rule_of_def d.
Proof. exact expr_unit_rule. Qed.
Print Assumptions C11_rule_is_as_written.

(* --- non-vacuity -------------------------------------------------------- *)

(* the table is not empty, has plurals, families, prefixes and legal pairs *)
Example C11_table_inhabited :
  (500 <=? N.of_nat (length (t_defs the_tables))) = true /\
  (700 <=? N.of_nat (length table_names)) = true /\
  (60 <=? N.of_nat (length gen_prefix_status)) = true.
Proof. vm_compute. repeat split. Qed.

(* m2 is a family member with stem m, exponent 2 *)
Example C11_family_inhabited :
  In ([109], 2%Z) (family_of [109; 50]) /\ (exists q, stem_quantity [109] = Some q).
Proof. vm_compute. split; [left; reflexivity|]. eexists; reflexivity. Qed.

(* kilo ++ meter is a plain, legal pair *)
Example C11_legal_pair_inhabited :
  pair_is_plain q_fast [107;105;108;111] [109;101;116;101;114] = true /\
  legal_rules (prefix_side_rule q_fast [107;105;108;111]) (name_side_rule q_fast [109;101;116;101;114]) = true.
Proof. vm_compute. split; reflexivity. Qed.

(* a custom unit that matches *)
Example C11_custom_inhabited :
  find_custom [([102;111;111], [], [108;64;51;32;109])] [102;111;111] true
  = Some ([102;111;111], [102;111;111], [108;64;51;32;109]).
Proof. reflexivity. Qed.
