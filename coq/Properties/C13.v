(* C13 -- Live preview is side-effect free.
   Model: coq/Eval/Preview.v (evaluate_preview_with_interrupt with the
   evaluator an arbitrary program over context/host effects).
   Property theorems only; each closed by [exact]. *)
From FendV Require Import Base.Prelude Eval.Preview Eval.PreviewProofs.
Open Scope N_scope.

(* Whenever preview returns -- for every evaluator, input, prior context and
   firing point of the interrupt -- the context is exactly the one passed in:
   variables (incl. _ and ans), settings, random source and exchange-rate
   handler.  The excluded class is an evaluator that panics (C06): unwinding
   skips the restore. *)
Theorem C13_preview_ctx_unchanged_except_known :
  forall vars settings rng rates payload (dp : payload) world call_rng call_rates
         (p : prog vars settings payload) fire input (c : context vars settings rng rates) (w : world),
  panicked _ _ _ _ _ _ (preview _ _ _ _ _ dp _ call_rng call_rates fire p input c w) = false ->
  p_ctx _ _ _ _ _ _ (preview _ _ _ _ _ dp _ call_rng call_rates fire p input c w) = c.
Proof. exact preview_ctx_unchanged_lemma. Qed.
Print Assumptions C13_preview_ctx_unchanged_except_known.

(* The full-strength statement (no exclusion) is false in the faithful model:
   an evaluator that assigns and then panics leaves the assignment behind and
   both handlers removed. *)
Theorem C13_preview_ctx_unchanged_refuted :
  exists p c w, p_ctx _ _ _ _ _ _ (Witness.prev None p [] c w) <> c.
Proof. exact ctx_unchanged_refuted_lemma. Qed.
Print Assumptions C13_preview_ctx_unchanged_refuted.

Theorem C13_preview_panic_loses_handlers :
  forall vars settings rng rates payload (dp : payload) world call_rng call_rates
         (p : prog vars settings payload) fire input (c : context vars settings rng rates) (w : world),
  panicked _ _ _ _ _ _ (preview _ _ _ _ _ dp _ call_rng call_rates fire p input c w) = true ->
  c_rng (p_ctx _ _ _ _ _ _ (preview _ _ _ _ _ dp _ call_rng call_rates fire p input c w)) = None
  /\ c_rates (p_ctx _ _ _ _ _ _ (preview _ _ _ _ _ dp _ call_rng call_rates fire p input c w)) = None.
Proof. exact preview_panic_handlers_lost. Qed.
Print Assumptions C13_preview_panic_loses_handlers.

(* During a preview the host is not reached: no random number is drawn and no
   exchange rate is requested (the host state, which only the two callbacks
   can change, is the same afterwards) -- for every evaluator, every firing
   point, and even if the evaluator panics. *)
Theorem C13_preview_no_rng_no_rates :
  forall vars settings rng rates payload (dp : payload) world call_rng call_rates
         (p : prog vars settings payload) fire input (c : context vars settings rng rates) (w : world),
  p_world _ _ _ _ _ _ (preview _ _ _ _ _ dp _ call_rng call_rates fire p input c w) = w.
Proof. exact preview_world_unchanged_lemma. Qed.
Print Assumptions C13_preview_no_rng_no_rates.

(* What preview returns is either the empty result or the evaluator's own
   result, and then: non-empty, not the unit type, at most 50 bytes, not an
   echo of the (trimmed) input, no control character (C0, DEL, C1) and no
   U+2028 / U+2029. *)
Theorem C13_preview_output_ok :
  forall vars settings rng rates payload (dp : payload) world call_rng call_rates
         (p : prog vars settings payload) fire input (c : context vars settings rng rates) (w : world) r,
  p_out _ _ _ _ _ _ (preview _ _ _ _ _ dp _ call_rng call_rates fire p input c w) = Some r ->
  r = empty_result dp
  \/ (snd (run _ _ _ _ _ _ call_rng call_rates fire p (mkst (disabled _ _ _ _ c) w 0)) = OOk r
      /\ r_text r <> [] /\ r_unit r = false /\ utf8_length (r_text r) <= 50
      /\ trim (r_text r) <> trim input /\ has_ctl (r_text r) = false).
Proof. exact preview_output_ok_lemma. Qed.
Print Assumptions C13_preview_output_ok.

(* An evaluation that is interrupted or fails shows nothing. *)
Theorem C13_preview_failure_shows_nothing :
  forall vars settings rng rates payload (dp : payload) world call_rng call_rates
         (p : prog vars settings payload) fire input (c : context vars settings rng rates) (w : world),
  (forall r, snd (run _ _ _ _ _ _ call_rng call_rates fire p (mkst (disabled _ _ _ _ c) w 0)) <> OOk r) ->
  snd (run _ _ _ _ _ _ call_rng call_rates fire p (mkst (disabled _ _ _ _ c) w 0)) <> OPanic ->
  p_out _ _ _ _ _ _ (preview _ _ _ _ _ dp _ call_rng call_rates fire p input c w) = Some (empty_result dp).
Proof. exact preview_failure_empty. Qed.
Print Assumptions C13_preview_failure_shows_nothing.

(* "never multi-line", full strength since the repair eacb46c: with line
   breaks as Unicode defines them (LF VT FF CR NEL LS PS), whatever preview
   shows is a single line. *)
Theorem C13_preview_single_line :
  forall payload input (r : fresult payload),
  keep input r = true -> single_line (r_text r) = true.
Proof. exact single_line_lemma. Qed.
Print Assumptions C13_preview_single_line.

(* The filter as it was before the repair (c < ' ' only) let a string result
   containing U+0085 through; outside that class it was single-line too. *)
Theorem C13_preview_single_line_old_refuted :
  exists input (r : fresult unit), keep_old input r = true /\ single_line (r_text r) = false.
Proof. exact single_line_old_refuted_lemma. Qed.
Print Assumptions C13_preview_single_line_old_refuted.

Theorem C13_preview_single_line_old_except_known :
  forall payload input (r : fresult payload),
  keep_old input r = true -> known_c13_linebreak (r_text r) = false -> single_line (r_text r) = true.
Proof. exact single_line_old_except_known_lemma. Qed.
Print Assumptions C13_preview_single_line_old_except_known.

(* ------------------------------------------------------------------ *)
(* non-vacuity: an evaluator that assigns, polls twice, draws a random number
   and asks for a rate.  Evaluated normally it changes the variables and
   reaches both callbacks; previewed it shows its text and leaves no trace;
   previewed with the interrupt firing at the second poll it shows nothing. *)
Example C13_evaluate_has_effects :
  Witness.eval None Witness.busy Witness.ctx0 (0, 0)
  = (mkctx [(2, 9); (1, 5)] 0 (Some tt) (Some tt), (1, 1), OOk (mkres [52; 50] false tt), 2).
Proof. reflexivity. Qed.

Example C13_preview_has_none :
  Witness.prev None Witness.busy [49] Witness.ctx0 (0, 0)
  = (Witness.ctx0, (0, 0), Some (mkres [52; 50] false tt), 2).
Proof. reflexivity. Qed.

Example C13_preview_interrupted :
  Witness.prev (Some 1) Witness.busy [49] Witness.ctx0 (0, 0)
  = (Witness.ctx0, (0, 0), Some (mkres [] true tt), 2).
Proof. reflexivity. Qed.

Example C13_filter_examples :
  preview_shows [49; 43; 49] [50] false = true            (* 1+1 -> 2 *)
  /\ preview_shows [50] [50] false = false                 (* echo *)
  /\ preview_shows [32; 50; 32] [50] false = false         (* echo up to trim *)
  /\ preview_shows [120] [40; 41] true = false             (* unit type *)
  /\ preview_shows [120] [97; 10; 98] false = false        (* newline *)
  /\ preview_shows [120] (repeat 49 51) false = false      (* 51 bytes *)
  /\ preview_shows [120] (repeat 49 50) false = true       (* 50 bytes *)
  /\ preview_shows [120] (repeat 233 26) false = false     (* 26 two-byte chars *)
  /\ preview_shows [120] [97; 133; 98] false = false       (* NEL *)
  /\ preview_shows [120] [8232] false = false              (* LINE SEPARATOR *)
  /\ preview_shows [120] [127] false = false.              (* DEL *)
Proof. vm_compute. repeat split. Qed.
