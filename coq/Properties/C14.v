(* C14 -- Loading variable bytes is memory-safe for arbitrary input.
   Property theorems only; each closed by [exact].  Model: Ser/Codec.v.  The
   reader monad returns, besides the result, the largest capacity request (in
   bytes) made from a length field of the input; a request above isize::MAX
   is the `capacity overflow' panic of Vec::with_capacity.  The allocator
   abort on a smaller-but-absurd request is observed by the correspondence
   check, not modelled.  [cfg_today sz] = the tree being checked: the code
   after fix commits 076760b (pre-allocation capped at 1024 elements) and
   4b8e673 (Base, Large, denominator, Ident validated on load);
   [cfg_pinned sz] = the code as pinned, for the theorems that document the
   two repaired defects. *)
From FendV Require Import Base.Prelude Ser.Generated.BuiltinNames Ser.Codec Ser.Cfg Ser.Witness
  Ser.CodecRT Ser.CodecSafe Ser.NamesProofs Ser.CodecLoaded Ser.CodecCor.
Open Scope N_scope.

(* ---- main theorems: the tree being checked, for every byte list ---- *)

(* the model's fuel (= input length) never runs out, for any configuration:
   the model fails only where the code does *)
Theorem C14_deser_total : forall c bs, run (de_vars c) bs <> Err EOutOfFuel.
Proof. exact de_vars_total. Qed.
Print Assumptions C14_deser_total.

(* a successful load leaves a suffix of its input *)
Theorem C14_deser_consumes_prefix : forall c bs m rest,
  run (de_vars c) bs = Ok (m, rest) -> exists consumed, bs = consumed ++ rest.
Proof. exact de_vars_prefix. Qed.
Print Assumptions C14_deser_consumes_prefix.

(* no input makes the loader panic ... *)
Theorem C14_no_panic : forall sz bs, prealloc_cap * max_sz sz <= isize_max ->
  forall s, fst (de_vars (cfg_today sz) bs) <> Panic s.
Proof. exact (fun sz bs H => proj2 (today_bounded sz bs H)). Qed.
Print Assumptions C14_no_panic.

(* ... or request more than 1024 elements' worth of capacity, whatever the
   length fields say *)
Theorem C14_alloc_bounded : forall sz bs, prealloc_cap * max_sz sz <= isize_max ->
  snd (de_vars (cfg_today sz) bs) <= prealloc_cap * max_sz sz.
Proof. exact (fun sz bs H => proj1 (today_bounded sz bs H)). Qed.
Print Assumptions C14_alloc_bounded.

(* a successfully loaded map is well-formed: what the Rust types promise
   (wf_codec) and what evaluation and printing rely on (wf_sem: base in
   2..=36, no empty limb vector, no zero denominator, no empty identifier) *)
Theorem C14_loaded_wf : forall sz bs m rest, bytes_ok bs ->
  run (de_vars (cfg_today sz)) bs = Ok (m, rest) ->
  wfc_vars as_names cap_today sz m = true /\ wfs_vars m = true.
Proof. exact today_loaded_wf. Qed.
Print Assumptions C14_loaded_wf.

(* and can be saved and loaded again, giving the same map *)
Theorem C14_resave_reload : forall sz bs m r rest, bytes_ok bs ->
  run (de_vars (cfg_today sz)) bs = Ok (m, r) ->
  run (de_vars (cfg_today sz)) (ser_vars m ++ rest) = Ok (m, rest).
Proof. exact today_resave_reload. Qed.
Print Assumptions C14_resave_reload.

(* general forms, any configuration *)
Theorem C14_panic_means_huge_request : forall c bs s,
  fst (de_vars c bs) = Panic s -> isize_max < snd (de_vars c bs).
Proof. exact panic_means_huge_request. Qed.
Print Assumptions C14_panic_means_huge_request.

Theorem C14_capped_bounded : forall c k, c_cap c = Some k -> k * max_sz (c_sz c) <= isize_max ->
  forall bs, snd (de_vars c bs) <= k * max_sz (c_sz c) /\ (forall s, fst (de_vars c bs) <> Panic s).
Proof. exact capped_bounded. Qed.
Print Assumptions C14_capped_bounded.

Theorem C14_loaded_wf_sem_general : forall c, c_validate c = true -> forall bs m rest,
  run (de_vars c) bs = Ok (m, rest) -> wfs_vars m = true.
Proof. exact loaded_wfs. Qed.
Print Assumptions C14_loaded_wf_sem_general.

Theorem C14_loaded_wf_codec_general : forall c asn,
  (forall s, mem s (c_from c) = true -> mem s asn = true) ->
  forall bs m rest, bytes_ok bs -> run (de_vars c) bs = Ok (m, rest) ->
  wfc_vars asn (c_cap c) (c_sz c) m = true /\ forallb (fun kv => names_ok_value (c_from c) (snd kv)) m = true.
Proof. exact loaded_wfc. Qed.
Print Assumptions C14_loaded_wf_codec_general.

(* the inputs that crashed the pinned loader are now ordinary errors with a
   1 KiB request, and the six non-well-formed images are rejected *)
Theorem C14_former_crash_images :
  de_vars (cfg_today sizes_x64) img_panic = (Err EDeser, 1024) /\
  de_vars (cfg_today sizes_x64) img_alloc = (Err EDeser, 1024).
Proof. exact img_panic_alloc_today. Qed.
Print Assumptions C14_former_crash_images.

Theorem C14_bad_images_rejected :
  forallb (fun m => match run (de_vars (cfg_today sizes_x64)) (ser_vars m) with
                    | Err EDeser => true | _ => false end) bad_vars = true.
Proof. exact bad_vars_rejected_today. Qed.
Print Assumptions C14_bad_images_rejected.

(* limits of loaded_wf: values inside every range the loader checks that fend
   never produces are accepted and written back unchanged -- 31 April, 30 and
   29 February 2023, a distribution with no outcome, limb vectors with leading
   zero limbs.  wf_sem does not exclude them because evaluation tolerates them
   (observed by the check's evaluation battery on every run); tightening the
   loader is the optional notes/C14_validate_calendar_dist.patch *)
Theorem C14_loaded_impossible_values_accepted :
  forallb (fun m => match run (de_vars (cfg_today sizes_x64)) (ser_vars m) with
                    | Ok (m', []) => wfs_vars m' && list_N_eqb (ser_vars m') (ser_vars m)
                    | _ => false end) odd_vars = true.
Proof. exact odd_vars_load_today. Qed.
Print Assumptions C14_loaded_impossible_values_accepted.

(* ---- the repaired defects (code as pinned) ---- *)

(* fixed 076760b: 16 bytes whose second length field is 2^63 reached
   Vec::with_capacity's `capacity overflow' ... *)
Theorem C14_pinned_no_panic_refuted :
  exists bs, de_vars (cfg_pinned sizes_x64) bs = (Panic 1, 9223372036854775808) /\ length bs = 16%nat.
Proof. exact (ex_intro _ img_panic (conj img_panic_pinned eq_refl)). Qed.
Print Assumptions C14_pinned_no_panic_refuted.

(* ... and 16 bytes asked for a terabyte (6144 would have been proportional) *)
Theorem C14_pinned_alloc_proportional_refuted :
  exists bs, snd (de_vars (cfg_pinned sizes_x64) bs) = 1099511627776 /\
             max_sz sizes_x64 * len_N bs = 6144.
Proof. exact (ex_intro _ img_alloc (conj (f_equal snd img_alloc_pinned) eq_refl)). Qed.
Print Assumptions C14_pinned_alloc_proportional_refuted.

(* outside the class `requested more than (largest element size) x (input
   length) bytes' the pinned loader did not panic either *)
Theorem C14_pinned_no_panic_except_known : forall sz bs,
  alloc_okb_pinned sz bs = true -> max_sz sz * len_N bs <= isize_max ->
  forall s, fst (de_vars (cfg_pinned sz) bs) <> Panic s.
Proof. exact no_panic_pinned_except_known. Qed.
Print Assumptions C14_pinned_no_panic_except_known.

(* fixed 4b8e673: six images (base 0 / 1 / 200, empty limb vector, zero
   denominator, empty identifier) loaded under the pinned reader, re-saved
   byte-identically, and were not well-formed *)
Theorem C14_pinned_loaded_wf_refuted :
  forallb (fun m => match run (de_vars (cfg_pinned sizes_x64)) (ser_vars m) with
                    | Ok (m', []) => negb (wfs_vars m') && list_N_eqb (ser_vars m') (ser_vars m)
                    | _ => false end) bad_vars = true.
Proof. exact bad_vars_load_pinned. Qed.
Print Assumptions C14_pinned_loaded_wf_refuted.

(* hypotheses are satisfiable *)
Example C14_hypotheses_inhabited :
  prealloc_cap * max_sz sizes_x64 <= isize_max /\
  (let bs := ser_vars [(B"a", VNum (num_int 5))] in
   forallb (fun b => b <? 256) bs = true /\
   run (de_vars (cfg_today sizes_x64)) bs = Ok ([(B"a", VNum (num_int 5))], []) /\
   alloc_okb_pinned sizes_x64 bs = true /\ max_sz sizes_x64 * len_N bs <= isize_max).
Proof. vm_compute. repeat split; try reflexivity; discriminate. Qed.
