(* C14 -- Loading variable bytes is memory-safe for arbitrary input.
   Property theorems only; each closed by [exact].  Model: Ser/Codec.v.  The
   reader monad returns, besides the result, the largest capacity request (in
   bytes) made from a length field of the input; a request above isize::MAX
   is the `capacity overflow' panic of Vec::with_capacity.  The allocator
   abort on a smaller-but-absurd request is observed by the correspondence
   check, not modelled.  [cfg_today sz] = tree being checked, [cfg_pinned sz]
   = code as pinned, [cfg_fixed sz] = with notes/C14_prealloc_cap.patch and
   notes/C14_validate_loaded.patch (and the two C12 patches). *)
From FendV Require Import Base.Prelude Ser.Generated.BuiltinNames Ser.Codec Ser.Cfg
  Ser.CodecRT Ser.CodecSafe Ser.NamesProofs Ser.CodecLoaded Ser.CodecCor.
Open Scope N_scope.

(* deser_total: the model's fuel (= input length) never runs out, for any
   configuration and any byte list: the model fails only where the code does *)
Theorem C14_deser_total : forall c bs, run (de_vars c) bs <> Err EOutOfFuel.
Proof. exact de_vars_total. Qed.
Print Assumptions C14_deser_total.

(* deser_consumes_prefix: a successful load leaves a suffix of its input *)
Theorem C14_deser_consumes_prefix : forall c bs m rest,
  run (de_vars c) bs = Ok (m, rest) -> exists consumed, bs = consumed ++ rest.
Proof. exact de_vars_prefix. Qed.
Print Assumptions C14_deser_consumes_prefix.

(* deser_no_panic (full statement: forall bs s, fst (de_vars c bs) <> Panic s)
   is REFUTED for the pinned reader: a 16-byte input whose second length field
   is 2^63 reaches Vec::with_capacity's `capacity overflow' ... *)
Theorem C14_no_panic_refuted :
  exists bs, de_vars (cfg_pinned sizes_x64) bs = (Panic 1, 9223372036854775808) /\ length bs = 16%nat.
Proof. exact (ex_intro _ img_panic (conj img_panic_panics eq_refl)). Qed.
Print Assumptions C14_no_panic_refuted.

(* ... holds outside the class `requested more than (largest element size) x
   (input length) bytes' for inputs that fit in memory ... *)
Theorem C14_no_panic_except_known : forall sz bs,
  alloc_okb sz bs = true -> max_sz sz * len_N bs <= isize_max ->
  forall s, fst (de_vars (cfg_today sz) bs) <> Panic s.
Proof. exact no_panic_except_known. Qed.
Print Assumptions C14_no_panic_except_known.

(* alloc_proportional (full statement: snd (de_vars c bs) <= max_sz * |bs|)
   is REFUTED for the pinned reader: 16 bytes ask for a terabyte *)
Theorem C14_alloc_proportional_refuted :
  exists bs, snd (de_vars (cfg_pinned sizes_x64) bs) = 1099511627776 /\
             max_sz sizes_x64 * len_N bs = 6144.
Proof. exact (ex_intro _ img_alloc (conj (f_equal snd img_alloc_requests) eq_refl)). Qed.
Print Assumptions C14_alloc_proportional_refuted.

(* ... and with the capacity cap no reader panics and no request exceeds
   cap x (largest element size), whatever the input (any build whose element
   sizes keep that product below isize::MAX) *)
Theorem C14_no_panic_alloc_bounded_fixed : forall sz bs, prealloc_cap * max_sz sz <= isize_max ->
  snd (de_vars (cfg_fixed sz) bs) <= prealloc_cap * max_sz sz /\
  (forall s, fst (de_vars (cfg_fixed sz) bs) <> Panic s).
Proof. exact fixed_bounded. Qed.
Print Assumptions C14_no_panic_alloc_bounded_fixed.

(* the general forms: any configuration *)
Theorem C14_panic_means_huge_request : forall c bs s,
  fst (de_vars c bs) = Panic s -> isize_max < snd (de_vars c bs).
Proof. exact panic_means_huge_request. Qed.
Print Assumptions C14_panic_means_huge_request.

Theorem C14_capped_bounded : forall c k, c_cap c = Some k -> k * max_sz (c_sz c) <= isize_max ->
  forall bs, snd (de_vars c bs) <= k * max_sz (c_sz c) /\ (forall s, fst (de_vars c bs) <> Panic s).
Proof. exact capped_bounded. Qed.
Print Assumptions C14_capped_bounded.

(* loaded_wf (full statement: a successfully loaded map satisfies wfs_vars =
   base in 2..=36, no empty limb vector, no zero denominator, no empty
   identifier) is REFUTED for the pinned reader: six images, each loaded
   successfully, re-saved byte-identically, and not well-formed ... *)
Theorem C14_loaded_wf_refuted :
  forallb (fun m => match run (de_vars (cfg_pinned sizes_x64)) (ser_vars m) with
                    | Ok (m', []) => negb (wfs_vars m') && list_N_eqb (ser_vars m') (ser_vars m)
                    | _ => false end) bad_vars = true.
Proof. exact bad_vars_load_today. Qed.
Print Assumptions C14_loaded_wf_refuted.

(* ... and holds of the validating reader for every input; it rejects the six *)
Theorem C14_loaded_wf_fixed : forall sz bs m rest,
  run (de_vars (cfg_fixed sz)) bs = Ok (m, rest) -> wfs_vars m = true.
Proof. exact fixed_loaded_wfs. Qed.
Print Assumptions C14_loaded_wf_fixed.

Theorem C14_loaded_wf_general : forall c, c_validate c = true -> forall bs m rest,
  run (de_vars c) bs = Ok (m, rest) -> wfs_vars m = true.
Proof. exact loaded_wfs. Qed.
Print Assumptions C14_loaded_wf_general.

Theorem C14_bad_images_rejected_fixed :
  forallb (fun m => match run (de_vars (cfg_fixed sizes_x64)) (ser_vars m) with
                    | Err EDeser => true | _ => false end) bad_vars = true.
Proof. exact bad_vars_rejected_fixed. Qed.
Print Assumptions C14_bad_images_rejected_fixed.

(* a value that was loaded and is well-formed can be saved and loaded again
   (the writer is total; this is the round trip of C12 for the repaired code) *)
Theorem C14_resave_reload_fixed : forall sz, sizes_okb sz = true -> forall m rest,
  wfc_vars as_names sz m = true -> wfs_vars m = true ->
  run (de_vars (cfg_fixed sz)) (ser_vars m ++ rest) = Ok (m, rest).
Proof. exact vars_roundtrip_fixed. Qed.
Print Assumptions C14_resave_reload_fixed.

(* whatever the tree being checked loads from a byte string is wf_codec and
   mentions only accepted function literals (any uncapped configuration) ... *)
Theorem C14_loaded_wf_codec : forall c asn, c_cap c = None ->
  (forall s, mem s (c_from c) = true -> mem s asn = true) ->
  forall bs m rest, bytes_ok bs -> run (de_vars c) bs = Ok (m, rest) ->
  wfc_vars asn (c_sz c) m = true /\ forallb (fun kv => names_ok_value (c_from c) (snd kv)) m = true.
Proof. exact loaded_wfc. Qed.
Print Assumptions C14_loaded_wf_codec.

(* ... hence saving it and loading the result gives the same map again, unless
   a scope was loaded (listed class of C12: scope.rs's reader is not the
   inverse of its writer) *)
Theorem C14_resave_reload_except_known : forall sz, sizes_okb sz = true -> forall bs m r rest,
  bytes_ok bs -> run (de_vars (cfg_today sz)) bs = Ok (m, r) ->
  forallb (fun kv => negb (has_scope_value (snd kv))) m = true ->
  run (de_vars (cfg_today sz)) (ser_vars m ++ rest) = Ok (m, rest).
Proof. exact resave_reload_except_known. Qed.
Print Assumptions C14_resave_reload_except_known.

(* hypotheses are satisfiable *)
Example C14_hypotheses_inhabited :
  prealloc_cap * max_sz sizes_x64 <= isize_max /\ sizes_okb sizes_x64 = true /\
  (let bs := ser_vars [(B"a", VNum (num_int 5))] in
   alloc_okb sizes_x64 bs = true /\ max_sz sizes_x64 * len_N bs <= isize_max /\
   forallb (fun b => b <? 256) bs = true /\
   run (de_vars (cfg_today sizes_x64)) bs = Ok ([(B"a", VNum (num_int 5))], [])).
Proof. vm_compute. repeat split; try reflexivity; discriminate. Qed.
