(* C06 — No input can crash fend.  This file collects the panic-freedom
   theorems of the modelled functions (the conjunction grows as areas are
   modelled; each area's own no-panic theorems are in its Properties file and
   are listed in notes/C06.md).  Native stack exhaustion and allocator aborts
   are runtime behaviour the model cannot exhibit: they are observed by the
   crash probes of gen/c06.py only (C06 is partial, see DESIGN.md). *)
From FendV Require Import Base.Prelude Text.Json Text.JsonProofs
  Crash.Superscript Crash.SuperscriptProofs Crash.Utf8 Crash.Utf8Proofs.
Open Scope N_scope.

(* json::escape_string never reaches one of its four unwrap()s on Unicode text *)
Theorem C06_json_no_panic : forall s, forallb is_scalar s = true ->
  exists o, escape s = Ok o.
Proof.
  intros s Hs. destruct (json_roundtrip_lemma s Hs) as (o & Ho & _). exists o. exact Ho.
Qed.
Print Assumptions C06_json_no_panic.

(* InlineFendResult::to_json never panics on Unicode parts *)
Theorem C06_inline_json_no_panic : forall ps,
  Forall (fun p => forallb is_scalar (part_contents p) = true) ps ->
  exists o, to_json ps = Ok o.
Proof.
  intros ps H. destruct (inline_json_lemma ps H) as (b & Hj & _). eexists. exact Hj.
Qed.
Print Assumptions C06_inline_json_no_panic.

(* the superscript-exponent accumulation (after fix 8fe1fc3) never panics and
   returns the decimal value or "exponent too large" -- for digit strings of
   any length, in builds with or without overflow checks (the repaired code has
   no unchecked arithmetic left) *)
Theorem C06_superscript_exponent : forall ds,
  match sup_exponent ds with
  | Ok n => n = digits_value ds
  | Err e => e = EExpTooLarge /\ exists j d, In d ds /\ d <> 0 /\
               (u32_max < j \/ u64_max < 10 ^ j \/ u64_max < 10 ^ j * d)
  | Panic _ => False
  end.
Proof. exact sup_exponent_spec. Qed.
Print Assumptions C06_superscript_exponent.

(* the defect it repaired, on the faithful model of the original code *)
Theorem C06_superscript_original_refuted :
  (exists ds, Forall (fun d => d < 10) ds /\ exists k, sup_old true ds = Panic k) /\
  (exists ds, Forall (fun d => d < 10) ds /\ exists n, sup_old false ds = Ok n /\ n <> digits_value ds).
Proof. exact (conj sup_old_panics sup_old_wraps). Qed.
Print Assumptions C06_superscript_original_refuted.

(* Complex::pow, imaginary base: the remaining unreachable!() arm of the
   "i^(y mod 4)" selector is dead for every exponent *)
Theorem C06_ipow_selector_total : forall y, exists r, ipow_selector y = Ok r /\ r = y mod 4 /\ r < 4.
Proof. exact ipow_selector_total. Qed.
Print Assumptions C06_ipow_selector_total.

(* units::get_completions_for_prefix: `name.split_at(prefix.len())` after
   `name.starts_with(prefix)` never panics for UTF-8 strings (every Rust &str),
   whatever the prefix -- including prefixes ending in multi-byte characters --
   and the inserted text is exactly the rest of the name *)
Theorem C06_completion_no_panic : forall ns ps,
  forallb Utf8.is_scalar ns = true -> forallb Utf8.is_scalar ps = true ->
  match completion_of (enc ns) (enc ps) with
  | Ok None => True
  | Ok (Some (display, insert)) => display = enc ns /\ exists rs, ns = ps ++ rs /\ insert = enc rs
  | Err _ | Panic _ => False
  end.
Proof. exact completion_of_ok. Qed.
Print Assumptions C06_completion_no_panic.

Example C06_completion_nontrivial :
  completion_of (enc [181; 109]) (enc [181]) = Ok (Some (enc [181; 109], enc [109]))
  /\ split_at (enc [233]) 1 = Panic 1.
Proof. split; vm_compute; reflexivity. Qed.

Example C06_superscript_nontrivial :
  sup_exponent [0; 1] = Ok 10 /\ sup_exponent [1;0;0;0;0;0;0;0;0;0;0;0;0;0;0;0;0;0;0;0;1] = Err EExpTooLarge.
Proof. split; vm_compute; reflexivity. Qed.
