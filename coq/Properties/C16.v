(* C16 -- Calendar arithmetic follows the proleptic Gregorian calendar.
   Property theorems only; each closed by [exact].

   Spec  (Date/Gregorian.v):  g_leap, g_mdays, g_valid, rd (rata die, 1 =
   0001-01-01), g_weekday = rd mod 7, over unbounded Z, years numbered
   astronomically (1 BC = 0).
   Model (Date/Calendar.v, Date/DateParse.v): mirror of fend's date code.
   Vocabulary (Date/CalendarProofs.v): for a model date d,
     wfy (dyear d)  the year is a non-zero i32 (what Year guarantees),
     ay d           its astronomical number, valid d = g_valid (ay d) m day,
     rdd d          = rd (ay d) m day,
     rd_max/rd_min  day numbers of 2147483647-12-31 and of 1 Jan of year i32::MIN.
   All statements hold for every representable year, BC included; the
   property's "year 1 AD onward" is the special case 1 <= dyear d. *)
From FendV Require Import Base.Prelude Date.Gregorian Date.GregorianProofs Date.Calendar
  Date.CalendarProofs Date.DiffMonthsProofs Date.DateParse Date.DateParseProofs.
Open Scope Z_scope.

(* ---- the rata die is the count of days -------------------------------- *)
(* it starts at 1 on 0001-01-01 ... *)
Theorem C16_rd_origin : rd 1 1 1 = 1.
Proof. exact (eq_refl 1). Qed.
Print Assumptions C16_rd_origin.

(* ... the count before a year grows by that year's length (every integer y) ... *)
Theorem C16_rd_year_step : forall y,
  days_before_year (y + 1) = days_before_year y + g_ylen y.
Proof. exact dby_step. Qed.
Print Assumptions C16_rd_year_step.

(* ... the count before a month is the sum of the preceding month lengths,
   and the twelve months make up the year ... *)
Theorem C16_rd_month_sum : forall y m, 1 <= m <= 12 ->
  days_before_month y m = sum_mdays y (Z.to_nat (m - 1)).
Proof. exact dbm_sum. Qed.
Print Assumptions C16_rd_month_sum.

Theorem C16_rd_year_sum : forall y, g_ylen y = sum_mdays y 12.
Proof. exact ylen_sum. Qed.
Print Assumptions C16_rd_year_sum.

(* ... and a day number names exactly one real day, every positive number
   some real day of a year >= 1. *)
Theorem C16_rd_injective : forall y1 m1 d1 y2 m2 d2,
  g_valid y1 m1 d1 = true -> g_valid y2 m2 d2 = true ->
  rd y1 m1 d1 = rd y2 m2 d2 -> y1 = y2 /\ m1 = m2 /\ d1 = d2.
Proof. exact rd_inj. Qed.
Print Assumptions C16_rd_injective.

Theorem C16_rd_surjective : forall n, 1 <= n ->
  exists y m d, 1 <= y /\ g_valid y m d = true /\ rd y m d = n.
Proof. exact rd_surj. Qed.
Print Assumptions C16_rd_surjective.

(* ---- next / prev ------------------------------------------------------- *)
Theorem C16_next_rd : forall d,
  wfy (dyear d) -> valid d -> rdd d < rd_max ->
  exists d', date_next d = Ok d' /\ valid d' /\ rdd d' = rdd d + 1 /\ wfy (dyear d').
Proof. exact date_next_spec. Qed.
Print Assumptions C16_next_rd.

Theorem C16_prev_rd : forall d,
  wfy (dyear d) -> valid d -> rd_min < rdd d ->
  exists d', date_prev d = Ok d' /\ valid d' /\ rdd d' = rdd d - 1 /\ wfy (dyear d').
Proof. exact date_prev_spec. Qed.
Print Assumptions C16_prev_rd.

(* the only failures are the error "year is out of range" at the two ends of
   the i32 range; no panic (before /repo c9faecb the step past
   2147483647-12-31 overflowed) *)
Theorem C16_next_total : forall d, wfy (dyear d) -> valid d ->
  (exists d', date_next d = Ok d') \/ (d = last_date /\ date_next d = Err EOutOfRange).
Proof. exact date_next_total. Qed.
Print Assumptions C16_next_total.

Theorem C16_prev_total : forall d, wfy (dyear d) -> valid d ->
  (exists d', date_prev d = Ok d') \/ (d = min_date /\ date_prev d = Err EOutOfRange).
Proof. exact date_prev_total. Qed.
Print Assumptions C16_prev_total.

Theorem C16_prev_next : forall d d',
  wfy (dyear d) -> valid d -> date_next d = Ok d' -> date_prev d' = Ok d.
Proof. exact prev_next. Qed.
Print Assumptions C16_prev_next.

Theorem C16_next_prev : forall d d',
  wfy (dyear d) -> valid d -> date_prev d = Ok d' -> date_next d' = Ok d.
Proof. exact next_prev. Qed.
Print Assumptions C16_next_prev.

(* ---- adding and subtracting days --------------------------------------- *)
Theorem C16_add_days_rd : forall d n,
  wfy (dyear d) -> valid d -> 0 <= n -> rdd d + n <= rd_max ->
  exists d', date_add d n = Ok d' /\ valid d' /\ rdd d' = rdd d + n /\ wfy (dyear d').
Proof. exact date_add_spec. Qed.
Print Assumptions C16_add_days_rd.

Theorem C16_sub_days_rd : forall d n,
  wfy (dyear d) -> valid d -> 0 <= n -> rd_min <= rdd d - n ->
  exists d', date_sub d UDay n = Ok (DMDate d') /\ valid d' /\ rdd d' = rdd d - n /\
             wfy (dyear d').
Proof. exact date_sub_days_spec. Qed.
Print Assumptions C16_sub_days_rd.

(* whatever n: a date or an error, never a panic *)
Theorem C16_add_days_total : forall d n, wfy (dyear d) -> valid d ->
  (exists d', date_add d n = Ok d') \/ (exists e, date_add d n = Err e).
Proof. exact date_add_total. Qed.
Print Assumptions C16_add_days_total.

(* adding n days and then subtracting n days returns the same date -- with no
   side condition: whenever the addition succeeds *)
Theorem C16_add_sub_days : forall d n d',
  wfy (dyear d) -> valid d -> date_add d n = Ok d' -> date_sub d' UDay n = Ok (DMDate d).
Proof. exact add_sub_days. Qed.
Print Assumptions C16_add_sub_days.

Theorem C16_sub_add_days : forall d n d',
  wfy (dyear d) -> valid d -> date_sub d UDay n = Ok (DMDate d') -> date_add d' n = Ok d.
Proof. exact sub_add_days. Qed.
Print Assumptions C16_sub_add_days.

(* ---- weekday ------------------------------------------------------------ *)
(* the code's closed formula is the rata die mod 7 (0 = Sunday), for every
   representable year; in particular it never reaches unreachable!() *)
Theorem C16_weekday_rd : forall ck d,
  wfy (dyear d) -> valid d ->
  exists w, day_of_week ck d = Ok w /\ dow_num w = rdd d mod 7.
Proof. exact day_of_week_spec. Qed.
Print Assumptions C16_weekday_rd.

(* hence consecutive days have consecutive weekdays, across month, year,
   century and leap-day boundaries alike *)
Theorem C16_weekday_consecutive : forall ck d d' w,
  wfy (dyear d) -> valid d -> date_next d = Ok d' -> day_of_week ck d = Ok w ->
  exists w', day_of_week ck d' = Ok w' /\ dow_num w' = (dow_num w + 1) mod 7.
Proof. exact weekday_consecutive. Qed.
Print Assumptions C16_weekday_consecutive.

(* anchor: 1970-01-01 was a Thursday *)
Theorem C16_weekday_known : forall ck, day_of_week ck (mkDate 1970 January 1) = Ok Thursday.
Proof. exact weekday_known. Qed.
Print Assumptions C16_weekday_known.

(* the printed form of a date of year >= 1 *)
Theorem C16_show_date : forall ck d, 1 <= dyear d <= i32_max -> valid d ->
  exists w, day_of_week ck d = Ok w /\ dow_num w = rdd d mod 7 /\
    show_date ck d = Ok (dow_name w ++ B", " ++ Z_decimal (dday d) ++ B" " ++
                         month_name (dmonth d) ++ B" " ++ Z_decimal (dyear d)).
Proof. exact show_date_ok. Qed.
Print Assumptions C16_show_date.

(* ---- weeks, months, years ----------------------------------------------- *)
Theorem C16_sub_weeks : forall d n,
  wfy (dyear d) -> valid d -> 0 <= n -> rd_min <= rdd d - 7 * n ->
  exists d', date_sub d UWeek n = Ok (DMDate d') /\ valid d' /\ rdd d' = rdd d - 7 * n /\
             wfy (dyear d') /\ date_sub d UDay (7 * n) = Ok (DMDate d').
Proof. exact date_sub_weeks_spec. Qed.
Print Assumptions C16_sub_weeks.

(* subtracting k months lands k months earlier on the month index
   12 * (astronomical year - 1) + (month - 1), same day of month ... *)
Theorem C16_sub_months : forall d k,
  wfy (dyear d) -> 1 <= dday d <= 31 -> 0 <= k ->
  min_idx <= midx (dyear d) (dmonth d) - k ->
  exists y' m', wfy y' /\ midx y' m' = midx (dyear d) (dmonth d) - k /\
                date_sub d UMonth k = Ok (land_on y' m' (dday d)).
Proof. exact date_sub_months_spec. Qed.
Print Assumptions C16_sub_months.

(* ... which determines year and month (division by 12) ... *)
Theorem C16_month_index_closed_form : forall y m,
  astronomical y = year_of_index (midx y m) /\ month_num m = month_of_index (midx y m).
Proof. exact midx_closed_form. Qed.
Print Assumptions C16_month_index_closed_form.

Theorem C16_sub_years : forall d n,
  wfy (dyear d) -> 1 <= dday d <= 31 -> 0 <= n ->
  i32_min + 1 <= astronomical (dyear d) - n ->
  exists y', wfy y' /\ astronomical y' = astronomical (dyear d) - n /\
             date_sub d UYear n = Ok (land_on y' (dmonth d) (dday d)).
Proof. exact date_sub_years_spec. Qed.
Print Assumptions C16_sub_years.

(* ... and the answer is that day if it exists, else the report that it does
   not, naming the month's true last day and the day after it *)
Theorem C16_landing : forall y m dd, wfy y -> 1 <= dd <= 31 ->
  (dd <= g_mdays (astronomical y) (month_num m) /\
   land_on y m dd = DMDate (mkDate y m dd) /\ valid (mkDate y m dd))
  \/
  (g_mdays (astronomical y) (month_num m) < dd /\
   g_valid (astronomical y) (month_num m) dd = false /\
   exists b a, land_on y m dd = DMNonExistent y m dd b a /\
     b = mkDate y m (g_mdays (astronomical y) (month_num m)) /\
     valid b /\ valid a /\ rdd a = rdd b + 1 /\ dyear a = y).
Proof. exact land_on_meaning. Qed.
Print Assumptions C16_landing.

(* a year count whose 12-fold exceeds usize is an error (before /repo ee75c09
   the product was unchecked) *)
Theorem C16_sub_years_huge : forall d n, usize_max < n * 12 -> 0 <= n <= usize_max ->
  date_sub d UYear n = Err EOutOfRange.
Proof. exact date_sub_years_huge. Qed.
Print Assumptions C16_sub_years_huge.

(* ---- literals ------------------------------------------------------------ *)
(* Date::parse on  ws* Y '-' M '-' D ws*  (Y, M, D digit strings): accepted
   exactly when [accept Y M D], and then it is that date *)
Theorem C16_parse_shape : forall w1 w2 Y M D,
  all_ws w1 -> all_ws w2 -> all_digits Y -> all_digits M -> all_digits D ->
  parse_date (w1 ++ ymd_text Y M D ++ w2) =
  if accept Y M D then
    match month_of_num (dval M) with
    | Some m => Ok (mkDate (dval Y) m (dval D))
    | None => Err EParse
    end
  else Err EParse.
Proof. exact parse_date_shape. Qed.
Print Assumptions C16_parse_shape.

(* nothing of another shape is accepted *)
Theorem C16_parse_sound : forall s d, parse_date s = Ok d ->
  exists w1 Y M D w2,
    s = w1 ++ ymd_text Y M D ++ w2 /\ all_ws w1 /\ all_ws w2 /\
    all_digits Y /\ all_digits M /\ all_digits D /\ accept Y M D = true /\
    dyear d = dval Y /\ month_num (dmonth d) = dval M /\ dday d = dval D.
Proof. exact parse_date_sound. Qed.
Print Assumptions C16_parse_sound.

(* [accept]: no leading zero in the year, 1000 <= Y <= i32::MAX, and (Y, M, D)
   is a real Gregorian day *)
Theorem C16_accept_iff : forall Y M D, accept Y M D = true <->
  (no_leading_zero Y = true /\ M <> [] /\ D <> [] /\
   1000 <= dval Y <= i32_max /\ g_valid (dval Y) (dval M) (dval D) = true).
Proof. exact accept_iff. Qed.
Print Assumptions C16_accept_iff.

Theorem C16_accept_month : forall Y M D, accept Y M D = true ->
  exists m, month_of_num (dval M) = Some m /\ month_num m = dval M.
Proof. exact accept_month. Qed.
Print Assumptions C16_accept_month.

(* the '@' literal scanner of the lexer: digits '-' digits '-' digits, then
   Date::parse on exactly that text *)
Theorem C16_literal_accept : forall Y M D rest,
  all_digits Y -> all_digits M -> all_digits D -> digit_free_start rest ->
  lex_date (ymd_text Y M D ++ rest) =
  if accept Y M D then
    match month_of_num (dval M) with
    | Some m => Ok (mkDate (dval Y) m (dval D), rest)
    | None => Err EParse
    end
  else Err EParse.
Proof. exact lex_date_accept. Qed.
Print Assumptions C16_literal_accept.

Theorem C16_literal_sound : forall input d rest, lex_date input = Ok (d, rest) ->
  exists Y M D, input = ymd_text Y M D ++ rest /\
    all_digits Y /\ all_digits M /\ all_digits D /\ digit_free_start rest /\
    accept Y M D = true /\
    dyear d = dval Y /\ month_num (dmonth d) = dval M /\ dday d = dval D.
Proof. exact lex_date_sound. Qed.
Print Assumptions C16_literal_sound.

Theorem C16_parse_never_panics : forall s k, parse_date s <> Panic k.
Proof. exact parse_date_never_panics. Qed.
Print Assumptions C16_parse_never_panics.

(* ---- the hypotheses are satisfiable -------------------------------------- *)
Example C16_ex_date : wfy 2024 /\ valid (mkDate 2024 February 29) /\
  rd_min < rdd (mkDate 2024 February 29) < rd_max.
Proof. repeat split; try discriminate; reflexivity. Qed.

Example C16_ex_bc_date : wfy (-1) /\ valid (mkDate (-1) February 29) /\
  rd_min < rdd (mkDate (-1) February 29) < rd_max.
Proof. repeat split; try discriminate; reflexivity. Qed.

Example C16_ex_add : date_add (mkDate 1999 December 31) 1 = Ok (mkDate 2000 January 1)
  /\ date_add (mkDate 1900 February 28) 1 = Ok (mkDate 1900 March 1)
  /\ date_add (mkDate 2000 February 28) 1 = Ok (mkDate 2000 February 29).
Proof. repeat split; reflexivity. Qed.

Example C16_ex_months :
  date_sub (mkDate 2020 March 31) UMonth 1 =
    Ok (DMNonExistent 2020 February 31 (mkDate 2020 February 29) (mkDate 2020 March 1))
  /\ min_idx <= midx 2020 March - 1 /\ i32_min + 1 <= astronomical 2020 - 1.
Proof. repeat split; try discriminate; reflexivity. Qed.

Example C16_ex_literal :
  all_ws [32%N; 9%N] /\ all_digits (B"2024") /\ digit_free_start (B" + 1 day") /\
  accept (B"2024") (B"02") (B"29") = true /\ accept (B"2023") (B"02") (B"29") = false /\
  accept (B"999") (B"01") (B"01") = false /\
  lex_date (B"2024-2-29 + 1 day") = Ok (mkDate 2024 February 29, B" + 1 day").
Proof. repeat split; reflexivity. Qed.
