(* C07 -- Evaluation is promptly interruptible and interruption leaves state
   sane.  (a) poll skeletons of the long loops (coq/Eval/Cost.v): the gap
   between polls is linear in the operand lengths for the polled loops
   (including the date, shift and distribution loops repaired in 30274a2,
   a55ff29, f8353e2) and unbounded in the input size for the parser; (b) the
   evaluator model (coq/Eval/Calc.v) run with the interrupt firing at poll k.
   Real time is the runtime's: these are statements about step counts.
   Property theorems only; each closed by [exact]. *)
From FendV Require Import Base.Prelude Eval.Cost Eval.CostProofs Eval.Calc Eval.CalcProofs Eval.CalcZ
  Eval.Preview Eval.PreviewProofs.
Open Scope N_scope.

(* ---------------- (a) polled loops: gap linear in operand lengths ---- *)

Theorem C07_gap_bound_mul : forall la lb, gap (mul_trace la lb) <= la + lb + 1.
Proof. exact gap_bound_mul_lemma. Qed.
Print Assumptions C07_gap_bound_mul.

Theorem C07_gap_bound_divmod : forall la lb, gap (divmod_trace la lb) <= 64 * (2 * lb + 4).
Proof. exact gap_bound_divmod_lemma. Qed.
Print Assumptions C07_gap_bound_divmod.

(* pow: never more than one multiplication step of the largest operands *)
Theorem C07_gap_bound_pow : forall fuel lr lb e,
  gap (pow_trace fuel lr lb e) <= pow_max_len fuel lr lb e + 1.
Proof. exact gap_bound_pow_lemma. Qed.
Print Assumptions C07_gap_bound_pow.

Theorem C07_gap_bound_factorial : forall n lr, gap (factorial_trace n lr) <= lr + 3.
Proof. exact gap_bound_factorial_lemma. Qed.
Print Assumptions C07_gap_bound_factorial.

Theorem C07_gap_bound_fibonacci : forall n l, gap (fibonacci_trace n l) <= l + 1.
Proof. exact gap_bound_fibonacci_lemma. Qed.
Print Assumptions C07_gap_bound_fibonacci.

Theorem C07_gap_bound_lshift1 : forall l, gap (lshift1_trace l) <= 1.
Proof. exact gap_bound_lshift1_lemma. Qed.
Print Assumptions C07_gap_bound_lshift1.

Theorem C07_gap_bound_new_die : forall faces, gap (die1_trace faces) <= 1.
Proof. exact gap_bound_die1_lemma. Qed.
Print Assumptions C07_gap_bound_new_die.

(* minimal numbers of polls (what the implementation's interrupt must see) *)
Theorem C07_polls_min_pow : forall a e, N.size e <= pow_polls_of a e.
Proof. exact pow_polls_of_ge. Qed.
Print Assumptions C07_polls_min_pow.

Theorem C07_polls_min_factorial : forall n, n - 1 <= factorial_polls_of n.
Proof. exact factorial_polls_of_ge. Qed.
Print Assumptions C07_polls_min_factorial.

Theorem C07_polls_mul : forall la lb, polls (mul_trace la lb) = lb.
Proof. exact polls_skeleton_mul. Qed.
Print Assumptions C07_polls_mul.

(* level-1 counts (BigUint operations on raw limb vectors, checked against
   the implementation through the hook biguint_polls) are the polls of the
   skeletons *)
Theorem C07_l1_mul_polls : forall a b,
  limbs_zero a = false -> limbs_zero b = false ->
  l1_mul_polls false a false b = polls (mul_trace (nlen a) (nlen b)).
Proof. exact l1_mul_skeleton. Qed.
Print Assumptions C07_l1_mul_polls.

Theorem C07_l1_lshift_polls : forall a,
  l1_lshift_polls false a = polls (lshift1_trace (nlen a + (if N.testbit (last a 0) 63 then 1 else 0))).
Proof. exact l1_lshift_skeleton. Qed.
Print Assumptions C07_l1_lshift_polls.

Theorem C07_l1_divmod_polls : forall a b n,
  l1_divmod_polls false a true b = Some n ->
  3 <= limbs_val b -> limbs_val b < limbs_val a ->
  n = polls (divmod_trace (nlen a) 1).
Proof. exact l1_divmod_skeleton. Qed.
Print Assumptions C07_l1_divmod_polls.

(* ---------------- (a) loops polled since the repairs ------------------ *)
(* date +/- n days | weeks | months | years (30274a2), a << n (a55ff29) and
   arithmetic on distributions (f8353e2) now poll in their loops: the gap is
   a constant, resp. the length of the result, resp. the number of outcomes *)

Theorem C07_gap_bound_date_steps : forall n step, gap (date_steps_trace n step) <= step.
Proof. exact gap_bound_date_steps_lemma. Qed.
Print Assumptions C07_gap_bound_date_steps.

Theorem C07_gap_bound_date_days : forall n, gap (date_days_trace n) <= 1.
Proof. exact gap_bound_date_days_lemma. Qed.
Print Assumptions C07_gap_bound_date_days.

Theorem C07_gap_bound_date_months : forall n, gap (date_months_trace n) <= 1.
Proof. exact gap_bound_date_months_lemma. Qed.
Print Assumptions C07_gap_bound_date_months.

Theorem C07_gap_bound_lshift_n : forall l0 n, 1 <= l0 -> gap (lshift_n_trace l0 n) <= l0 + n / 64.
Proof. exact gap_bound_lshift_n_lemma. Qed.
Print Assumptions C07_gap_bound_lshift_n.

Theorem C07_gap_bound_dist_bop : forall la lb, gap (dist_bop_trace la lb) <= la * lb + 1.
Proof. exact gap_bound_dist_bop_lemma. Qed.
Print Assumptions C07_gap_bound_dist_bop.

(* the polls these loops make (the check alarms if the implementation makes fewer) *)
Theorem C07_polls_date_steps : forall n step, polls (date_steps_trace n step) = n.
Proof. exact polls_date_steps_lemma. Qed.
Print Assumptions C07_polls_date_steps.

Theorem C07_polls_date_months : forall n, polls (date_months_trace n) = date_months_polls_of n.
Proof. exact polls_date_months_lemma. Qed.
Print Assumptions C07_polls_date_months.

Theorem C07_polls_min_lshift_n : forall l0 n, lshift_n_insert_polls_of n <= polls (lshift_n_trace l0 n).
Proof. exact polls_lshift_n_lemma. Qed.
Print Assumptions C07_polls_min_lshift_n.

Theorem C07_polls_dist_bop : forall la lb, polls (dist_bop_trace la lb) = dist_bop_polls la lb.
Proof. exact polls_dist_bop_lemma. Qed.
Print Assumptions C07_polls_dist_bop.

(* a >> n for any count n: the zero test inside rshift_n's loop bounds the
   work by the bit length of a (a Small value is shifted at most 64 times
   without a poll, a Large one polls per limb) -- never by the count *)
Theorem C07_gap_bound_rshift_n : forall small l bits n, gap (rshift_n_trace small l bits n) <= bits + 1.
Proof. exact gap_bound_rshift_n_lemma. Qed.
Print Assumptions C07_gap_bound_rshift_n.

Theorem C07_work_rshift_n_small : forall bits n, work (rshift_n_trace true 1 bits n) = N.min n bits.
Proof. exact work_rshift_n_small. Qed.
Print Assumptions C07_work_rshift_n_small.

(* digit expansions (BigRat format_trailing_digits): however many digits are
   produced -- n decimal places, or a period of up to d - 1 digits found by
   Brent's cycle detection -- the work between two polls is bounded by a
   linear function of the denominator's length, and every digit step polls *)
Theorem C07_gap_bound_digits : forall ld n, gap (digits_trace ld n) <= digit_gap_bound ld.
Proof. exact gap_bound_digits_lemma. Qed.
Print Assumptions C07_gap_bound_digits.

Theorem C07_gap_bound_recurring : forall ld n1 lam mu, gap (brent_trace ld n1 lam mu) <= digit_gap_bound ld.
Proof. exact gap_bound_brent_lemma. Qed.
Print Assumptions C07_gap_bound_recurring.

Theorem C07_polls_min_digits : forall ld n, digits_polls_of (N.of_nat n) <= polls (digits_trace ld n).
Proof. exact polls_digits_lemma. Qed.
Print Assumptions C07_polls_min_digits.

Theorem C07_polls_min_recurring : forall ld n1 lam mu,
  N.of_nat n1 + N.of_nat lam + 2 * N.of_nat mu <= polls (brent_trace ld n1 lam mu).
Proof. exact polls_brent_lemma. Qed.
Print Assumptions C07_polls_min_recurring.

(* ---------------- (a) the same loops before the repairs, and the parser - *)
(* "the time between successive checks stays bounded for every input" failed
   for the skeletons of the loops as they were (repaired defects, kept as
   documentation) and still fails for the parser: for every quadratic bound
   in the size of the input there is an input whose gap exceeds it. *)

Theorem C07_gap_date_days_old : forall n, gap (date_days_trace_old n) = n.
Proof. exact gap_date_days_old_lemma. Qed.
Print Assumptions C07_gap_date_days_old.

Theorem C07_gap_bounded_date_old_refuted : forall c, exists n, quad c (N.size n) < gap (date_days_trace_old n).
Proof. exact gap_unbounded_date_old_lemma. Qed.
Print Assumptions C07_gap_bounded_date_old_refuted.

Theorem C07_gap_bounded_lshift_n_old_refuted : forall c, exists n, quad c (N.size n) < gap (lshift_n_trace_old 1 n).
Proof. exact gap_unbounded_lshift_old_lemma. Qed.
Print Assumptions C07_gap_bounded_lshift_n_old_refuted.

Theorem C07_gap_bounded_dist_bop_old_refuted : forall c, exists faces, quad c (N.size faces) < gap (dist_bop_trace_old faces faces).
Proof. exact gap_unbounded_dist_old_lemma. Qed.
Print Assumptions C07_gap_bounded_dist_bop_old_refuted.

(* open: the parser *)
Theorem C07_gap_bounded_parse_refuted : forall c, exists d, quad c (juxt_tokens d) < gap (parse_juxt_trace d).
Proof. exact gap_unbounded_parse_lemma. Qed.
Print Assumptions C07_gap_bounded_parse_refuted.

(* ---------------- (b) the evaluator under an interrupt --------------- *)
Section C07b.
Variable num : Type.
Variable num_un : unop -> num -> option num.
Variable num_bop : bop -> num -> num -> option num.
Variable builtin : ident -> option (ident + num).
Variable builtin_apply : ident -> num -> option num.
Variable unit_of : ident -> option num.
Variable unit_static : ident -> option num.
Variable fmt_polls : value num -> nat.
Variable fmt_ok : value num -> bool.
Notation eval := (Calc.eval num num_un num_bop builtin builtin_apply unit_of unit_static).
Notation eval_top := (Calc.eval_top num num_un num_bop builtin builtin_apply unit_of unit_static fmt_polls fmt_ok).

(* whichever poll the predicate turns true at: the outcome is Interrupted,
   or everything (result, variables, number of polls) is what the
   uninterrupted run gives *)
Theorem C07_interrupt_or_same : forall k f e vs,
  eval_top (Some k) f e (mkS vs 0 []) = eval_top None f e (mkS vs 0 [])
  \/ snd (eval_top (Some k) f e (mkS vs 0 [])) = Bad EIntr.
Proof. exact (interrupt_or_same_lemma num num_un num_bop builtin builtin_apply unit_of unit_static fmt_polls fmt_ok). Qed.

(* promptness in steps: the poll that answers true is the last thing done *)
Theorem C07_interrupt_prompt : forall k f e vs,
  snd (eval_top (Some k) f e (mkS vs 0 [])) = Bad EIntr ->
  Calc.s_polls (fst (eval_top (Some k) f e (mkS vs 0 []))) = k + 1.
Proof. exact (interrupt_prompt_lemma num num_un num_bop builtin builtin_apply unit_of unit_static fmt_polls fmt_ok). Qed.

(* the context after an interrupt: the old variables with a prefix of the
   uninterrupted run's writes applied -- completed assignments are intact,
   every value is a complete value, nothing else is written *)
Theorem C07_interrupt_state : forall k f e vs,
  snd (eval_top (Some k) f e (mkS vs 0 [])) = Bad EIntr ->
  eval_top (Some k) f e (mkS vs 0 []) <> eval_top None f e (mkS vs 0 []) ->
  exists j, s_vars (fst (eval_top (Some k) f e (mkS vs 0 [])))
            = replay (firstn j (s_log (fst (eval_top None f e (mkS vs 0 []))))) vs.
Proof. exact (interrupt_state_lemma num num_un num_bop builtin builtin_apply unit_of unit_static fmt_polls fmt_ok). Qed.

(* _ and ans: untouched by an interrupt that hits before the value exists
   (an interrupt while the value is being formatted finds them already set to
   that value: evaluate_to_spans writes them first) *)
Theorem C07_interrupt_ans_unchanged : forall k f e vs s x,
  x = id_underscore \/ x = id_ans ->
  eval (Some k) f e SNil (mkS vs 0 []) = (s, Bad EIntr) ->
  Forall (fun ev => match ev with LAssign y _ => y <> x | LAns _ => True end) (s_log s) ->
  get_var x (s_vars s) = get_var x vs.
Proof. exact (interrupt_ans_lemma num num_un num_bop builtin builtin_apply unit_of unit_static fmt_polls fmt_ok). Qed.
End C07b.
Print Assumptions C07_interrupt_or_same.
Print Assumptions C07_interrupt_prompt.
Print Assumptions C07_interrupt_state.
Print Assumptions C07_interrupt_ans_unchanged.

(* a preview leaves no trace, wherever the interrupt fires (C13's theorem,
   restated for every firing point) *)
Theorem C07_preview_no_trace :
  forall vars settings rng rates payload (dp : payload) world call_rng call_rates
         (p : prog vars settings payload) (k : N) input (c : context vars settings rng rates) (w : world),
  panicked _ _ _ _ _ _ (preview _ _ _ _ _ dp _ call_rng call_rates (Some k) p input c w) = false ->
  p_ctx _ _ _ _ _ _ (preview _ _ _ _ _ dp _ call_rng call_rates (Some k) p input c w) = c
  /\ p_world _ _ _ _ _ _ (preview _ _ _ _ _ dp _ call_rng call_rates (Some k) p input c w) = w.
Proof. exact preview_no_trace_lemma. Qed.
Print Assumptions C07_preview_no_trace.

(* ------------------------------------------------------------------ *)
(* non-vacuity *)

(* a = 1; b = a + 1; b * 2 interrupted at poll 5 (inside the second
   assignment): a = 1 is there, b is not, ans is not; uninterrupted: 4 *)
Example C07_interrupt_example :
  let e := EStmts (EStmts (EAssign (B"a") (ELit 1%Z))
                          (EAssign (B"b") (EBop BPlus (EIdent (B"a")) (ELit 1%Z))))
                  (EBop BMul (EIdent (B"b")) (ELit 2%Z)) in
  let r := zeval_top (Some 5) 50 e (mkS [] 0 []) in
  snd r = Bad EIntr /\ Calc.s_polls (fst r) = 6
  /\ map fst (s_vars (fst r)) = [B"a"]
  /\ snd (zeval_top None 50 e (mkS [] 0 [])) = Good (VNum 4%Z)
  /\ Calc.s_polls (fst (zeval_top None 50 e (mkS [] 0 []))) = 11.
Proof. vm_compute. repeat split. Qed.

Example C07_skeleton_examples :
  gap (mul_trace 3 2) = 6 /\ polls (mul_trace 3 2) = 2
  /\ gap (date_days_trace 1000) = 1 /\ polls (date_days_trace 1000) = 1000
  /\ gap (date_days_trace_old 1000) = 1000 /\ polls (date_days_trace_old 1000) = 0
  /\ gap (lshift_n_trace 1 640) = 10 /\ polls (lshift_n_trace 1 640) = 10
  /\ gap (lshift_n_trace_old 1 640) = 55 /\ polls (lshift_n_trace_old 1 640) = 0
  /\ gap (dist_bop_trace 6 6) = 37 /\ polls (dist_bop_trace 6 6) = 36
  /\ new_die_polls_of 3 6 = 122 /\ date_months_polls_of 1201 = 101
  /\ preperiod_period 7 = (0, 6) /\ preperiod_period 12 = (2, 1) /\ preperiod_period 97 = (0, 96)
  /\ recurring_polls_of 9973 = 2 * snd (preperiod_period 9973) /\ (gap (brent_trace 1 5 6 0) <=? digit_gap_bound 1) = true
  /\ gap (parse_juxt_trace 10) = 2047
  /\ pow_polls_of 1 (2 ^ 63) = 64 /\ pow_polls_of 3 200 = 21
  /\ factorial_polls_of 20 = 19 /\ factorial_polls_of 25 = 33.
Proof. vm_compute. repeat split. Qed.
