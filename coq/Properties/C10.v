(* C10 -- Integer-domain functions agree with exact big-integer mathematics.
   Property theorems only; each closed by [exact].  Models: coq/Intfns/Limbs.v
   (limb level), Arith.v (value / rational level), Text.v (words, roman,
   char, codepoint), Float.v (floor / ceil / round: exact integer division as
   of fend 7d3085c; the earlier f64 route is kept as q_round_old).
   Defects found by this property and repaired in fend: 2c2d128 (try_as_usize
   on leading zero limbs), 7d3085c (floor/ceil/round through f64), 07532bc
   (nPr accepted a negative r).  The theorems about the old code are kept at
   the end as documentation. *)
From FendV Require Import Base.Prelude Intfns.Limbs Intfns.LimbsProofs Intfns.Arith
  Intfns.ArithProofs Intfns.Text Intfns.WordsProofs Intfns.RomanProofs Intfns.Float
  Intfns.FloatProofs.
From Coq Require Import Factorial.
Open Scope N_scope.

(* ---------------- factorial, fibonacci ---------------- *)

(* BigUint::factorial's loop computes n! for every n *)
Theorem C10_fact_spec : forall n, factorial n = Nfact n.
Proof. exact fact_spec_lemma. Qed.
Print Assumptions C10_fact_spec.

(* Nfact is the standard library's factorial *)
Theorem C10_fact_is_stdlib : forall n, Nfact n = N.of_nat (fact (N.to_nat n)).
Proof. exact Nfact_nat. Qed.
Print Assumptions C10_fact_is_stdlib.

Theorem C10_fib_spec : forall n, fibonacci n = fib_nat (N.to_nat n).
Proof. exact fib_spec_lemma. Qed.
Print Assumptions C10_fib_spec.

(* ---------------- nCr, nPr, mod on rationals denoting naturals ---------------- *)

(* whatever fraction denotes n and r (10/2 for 5, a negative zero, any limb
   representation), n nCr r is a fraction denoting the binomial coefficient *)
Theorem C10_ncr_spec : forall a b n r, rat_repr a (N.of_nat n) -> rat_repr b (N.of_nat r) ->
  (r <= n)%nat ->
  exists q, q_combination a b = Ok q /\ rneg q = false /\ dval q <> 0 /\
            nval q = binom n r * dval q.
Proof. exact ncr_spec_lemma. Qed.
Print Assumptions C10_ncr_spec.

Theorem C10_npr_spec : forall a b n r, rat_repr a (N.of_nat n) -> rat_repr b (N.of_nat r) ->
  (r <= n)%nat ->
  exists q, q_permutation a b = Ok q /\ rneg q = false /\ dval q <> 0 /\
            nval q = perm n r * dval q.
Proof. exact npr_spec_lemma. Qed.
Print Assumptions C10_npr_spec.

Theorem C10_mod_spec : forall a b n m, rat_repr a n -> rat_repr b m -> m <> 0 ->
  exists q, q_modulo a b = Ok q /\ rneg q = false /\ dval q = 1 /\ nval q = n mod m.
Proof. exact mod_spec_lemma. Qed.
Print Assumptions C10_mod_spec.

(* ---------------- bitwise operations on limbs of any lengths ---------------- *)

Theorem C10_and_spec : forall a b, wf a = true -> wf b = true ->
  exists r, bitwise_and a b = Ok r /\ wf r = true /\ val r = N.land (val a) (val b).
Proof. exact and_spec_lemma. Qed.
Print Assumptions C10_and_spec.

Theorem C10_or_spec : forall a b, wf a = true -> wf b = true ->
  exists r, bitwise_or a b = Ok r /\ wf r = true /\ val r = N.lor (val a) (val b).
Proof. exact or_spec_lemma. Qed.
Print Assumptions C10_or_spec.

Theorem C10_xor_spec : forall a b, wf a = true -> wf b = true ->
  exists r, bitwise_xor a b = Ok r /\ wf r = true /\ val r = N.lxor (val a) (val b).
Proof. exact xor_spec_lemma. Qed.
Print Assumptions C10_xor_spec.

(* ---------------- shifts, for every count the code accepts ---------------- *)

Theorem C10_shl_spec : forall a b n, wf a = true -> try_as_usize b = Ok n ->
  exists r, lshift_n a b = Ok r /\ wf r = true /\ val r = N.shiftl (val a) n.
Proof. exact shl_spec_lemma. Qed.
Print Assumptions C10_shl_spec.

Theorem C10_shr_spec : forall a b n, wf a = true -> try_as_usize b = Ok n ->
  exists r, rshift_n a b = Ok r /\ wf r = true /\ val r = N.shiftr (val a) n.
Proof. exact shr_spec_lemma. Qed.
Print Assumptions C10_shr_spec.

(* ---------------- try_as_usize (as repaired by fend 2c2d128) ---------------- *)

(* exactly the values below 2^64 are accepted, whatever the limb
   representation (leading zero limbs included) *)
Theorem C10_try_as_usize_spec : forall b, wf b = true ->
  (val b < W -> try_as_usize b = Ok (val b)) /\
  (W <= val b -> try_as_usize b = Err EOutOfRange).
Proof. exact try_as_usize_spec_lemma. Qed.
Print Assumptions C10_try_as_usize_spec.

(* consequence: shifts are defined for every count below 2^64 *)
Theorem C10_shl_total : forall a b, wf a = true -> wf b = true -> val b < W ->
  exists r, lshift_n a b = Ok r /\ wf r = true /\ val r = N.shiftl (val a) (val b).
Proof. exact shl_total_lemma. Qed.
Print Assumptions C10_shl_total.

Theorem C10_shr_total : forall a b, wf a = true -> wf b = true -> val b < W ->
  exists r, rshift_n a b = Ok r /\ wf r = true /\ val r = N.shiftr (val a) (val b).
Proof. exact shr_total_lemma. Qed.
Print Assumptions C10_shr_total.

(* ---------------- arguments outside the domain are errors ---------------- *)

(* negative or fractional arguments: every integer-domain function errors *)
Theorem C10_domain_errors : forall q, rat_wf q = true -> ~ denotes_nat q ->
  is_err (q_factorial q) /\ is_err (q_try_as_usize q) /\ is_err (q_try_as_biguint q) /\
  (forall op b, rat_wf b = true -> is_err (q_bitwise op q b) /\ is_err (q_bitwise op b q)) /\
  (forall b, rat_wf b = true ->
     is_err (q_modulo q b) /\ is_err (q_modulo b q) /\
     is_err (q_combination q b) /\ is_err (q_combination b q) /\
     is_err (q_permutation q b) /\ is_err (q_permutation b q)).
Proof. exact domain_errors_lemma. Qed.
Print Assumptions C10_domain_errors.

(* nPr rejects a bad argument on either side (second argument: since 07532bc) *)
Theorem C10_npr_domain : forall a b, rat_wf a = true -> rat_wf b = true ->
  ~ denotes_nat a \/ ~ denotes_nat b -> is_err (q_permutation a b).
Proof. exact q_permutation_domain. Qed.
Print Assumptions C10_npr_domain.

(* r > n, modulus zero or negative *)
Theorem C10_domain_errors_binary : forall a b n r, rat_repr a n -> rat_repr b r ->
  (n < r -> is_err (q_combination a b) /\ is_err (q_permutation a b)) /\
  (r = 0 -> is_err (q_modulo a b)).
Proof. exact domain_errors_binary_lemma. Qed.
Print Assumptions C10_domain_errors_binary.

(* non-real arguments *)
Theorem C10_domain_errors_nonreal : forall c, real_is_zero (cim c) = false ->
  is_err (c_factorial c) /\ is_err (c_try_as_usize c) /\ is_err (c_try_as_biguint c) /\
  is_err (c_fibonacci c) /\
  (forall f d, is_err (c_binary f c d) /\ is_err (c_binary f d c)) /\
  (forall mode, is_err (c_round mode c)).
Proof. exact domain_errors_nonreal_lemma. Qed.
Print Assumptions C10_domain_errors_nonreal.

(* a non-zero multiple of pi is not an integer / not a rational operand *)
Theorem C10_domain_errors_pi : forall c q, cre c = RPi q -> nval q <> 0 ->
  is_err (c_try_as_usize c) /\ is_err (c_try_as_biguint c) /\ is_err (c_fibonacci c) /\
  (forall f d, is_err (c_binary f c d) /\ is_err (c_binary f d c)).
Proof. exact domain_errors_pi_lemma. Qed.
Print Assumptions C10_domain_errors_pi.

(* ---------------- number to words ---------------- *)

(* an independent reader of English number words gives the number back *)
Theorem C10_words_inverse : forall n, n < 10 ^ 66 ->
  exists s, to_words n = Ok s /\ parse_words s = Some n.
Proof. exact words_inverse_lemma. Qed.
Print Assumptions C10_words_inverse.

Theorem C10_words_out_of_range : forall n, 10 ^ 66 <= n -> to_words n = Err EOutOfRange.
Proof. exact words_out_of_range_lemma. Qed.
Print Assumptions C10_words_out_of_range.

(* ---------------- roman numerals ---------------- *)

(* value by the subtractive rule (overlined letter = 1000 x letter) is n; the
   numeral is the greedy expansion over M-bar .. I; outside 1..10^9: error *)
Theorem C10_roman_inverse : forall n,
  (1 <= n <= 1000000000 -> exists s, roman_of_usize n = Ok s /\ roman_value s = Some (Z.of_N n) /\
                                     s = greedy all_denominations n) /\
  (n = 0 \/ 1000000000 < n -> roman_of_usize n = Err EOutOfRange).
Proof. exact roman_of_usize_spec. Qed.
Print Assumptions C10_roman_inverse.

(* the value theorem needs no upper bound *)
Theorem C10_roman_value_all : forall n, roman_value (to_roman n true) = Some (Z.of_N n).
Proof. exact roman_inverse_lemma. Qed.
Print Assumptions C10_roman_value_all.

(* canonical form: after the leading overlined M, no group is repeated more
   than 3 times and the subtractive / five groups at most once *)
Theorem C10_roman_canonical : forall n,
  Forall2 N.le (tl (gquot all_values n)) canonical_caps.
Proof. exact roman_canonical_lemma. Qed.
Print Assumptions C10_roman_canonical.

(* ---------------- char / codepoint ---------------- *)

Theorem C10_char_codepoint : forall c,
  (is_scalar c = true -> char_of_usize c = Ok [c] /\ codepoint_of [c] = Ok c) /\
  (is_scalar c = false -> char_of_usize c = Err EOutOfRange).
Proof. exact char_codepoint_lemma. Qed.
Print Assumptions C10_char_codepoint.

Theorem C10_codepoint_char : forall s,
  (forall c, codepoint_of s = Ok c -> s = [c]) /\
  (length s <> 1%nat -> exists e, codepoint_of s = Err e).
Proof. exact codepoint_char_all. Qed.
Print Assumptions C10_codepoint_char.

(* ---------------- floor / ceil / round ---------------- *)

(* BigRat::round_to_integer: for every rational the result is the integer
   floor / ceiling / nearest integer (halves away from zero), denominator 1 *)
Theorem C10_floor_spec : forall q, rat_wf q = true ->
  exists r, q_round RFloor q = Ok r /\ dval r = 1 /\ rat_is_Z r (round_spec RFloor q) = true.
Proof. exact floor_spec_lemma. Qed.
Print Assumptions C10_floor_spec.

Theorem C10_ceil_spec : forall q, rat_wf q = true ->
  exists r, q_round RCeil q = Ok r /\ dval r = 1 /\ rat_is_Z r (round_spec RCeil q) = true.
Proof. exact ceil_spec_lemma. Qed.
Print Assumptions C10_ceil_spec.

Theorem C10_round_spec : forall q, rat_wf q = true ->
  exists r, q_round RRound q = Ok r /\ dval r = 1 /\ rat_is_Z r (round_spec RRound q) = true.
Proof. exact round_spec_lemma. Qed.
Print Assumptions C10_round_spec.

(* floor / ceil / round of a quantity with a unit keep the unit and round the
   coefficient.  Full-strength statement for dimensionless scaled units
   (dozen, %, m/cm), refuted:
     u_round mode c s = Ok r -> r denotes round_spec mode (c * s)
   e.g. floor(1.5 dozen) = 1 dozen = 12, not 18 *)
Theorem C10_round_unit_scale_refuted : exists c s r, rat_wf c = true /\ rat_wf s = true /\
  u_round RFloor c s = Ok r /\ rat_is_Z r (round_spec RFloor (rat_mul c s)) = false.
Proof. exact round_unit_scale_refuted_lemma. Qed.
Print Assumptions C10_round_unit_scale_refuted.

Theorem C10_round_unit_scale_except_known : forall mode c s, rat_wf c = true -> rat_wf s = true ->
  known_C10_round_unit_scale s = false ->
  exists r, u_round mode c s = Ok r /\ rat_is_Z r (round_spec mode (rat_mul c s)) = true.
Proof. exact round_unit_scale_except_known_lemma. Qed.
Print Assumptions C10_round_unit_scale_except_known.

(* ---------------- documentation of the repaired defects ---------------- *)

(* before 7d3085c (q_round_old = from_f64 . floor . into_f64) the statement
   above failed: computed witnesses 10^20 + 1/2, 3 + 10^-30, 1/2 - 10^-30 *)
Theorem C10_floor_old_refuted : exists q, rat_wf q = true /\
  exists r, q_round_old RFloor q = Ok r /\ rat_is_Z r (round_spec RFloor q) = false.
Proof. exact floor_refuted_ex. Qed.
Print Assumptions C10_floor_old_refuted.

Theorem C10_ceil_old_refuted : exists q, rat_wf q = true /\
  exists r, q_round_old RCeil q = Ok r /\ rat_is_Z r (round_spec RCeil q) = false.
Proof. exact ceil_refuted_ex. Qed.
Print Assumptions C10_ceil_old_refuted.

Theorem C10_round_old_refuted : exists q, rat_wf q = true /\
  exists r, q_round_old RRound q = Ok r /\ rat_is_Z r (round_spec RRound q) = false.
Proof. exact round_refuted_ex. Qed.
Print Assumptions C10_round_old_refuted.

(* independent of any floating-point semantics: the conversion back from f64
   could not exceed 2^64, so every value from 2^64 + 1 on was rounded wrongly *)
Theorem C10_round_old_beyond_u64_wrong : forall mode q r, rneg q = false -> dval q <> 0 ->
  (W + 1) * dval q <= nval q ->
  q_round_old mode q = Ok r -> rat_is_Z r (round_spec mode q) = false.
Proof. exact round_beyond_u64_wrong_lemma. Qed.
Print Assumptions C10_round_old_beyond_u64_wrong.

(* integers below 2^53 held in Small limbs were rounded correctly *)
Theorem C10_round_old_except_known : forall mode q, rat_wf q = true -> known_C10_float_old q = false ->
  exists r, q_round_old mode q = Ok r /\ rat_is_Z r (round_spec mode q) = true.
Proof. exact round_except_known_lemma. Qed.
Print Assumptions C10_round_old_except_known.

(* before 07532bc: 5 nPr (-1) = 5!/6! instead of an error; every other bad
   second argument was rejected *)
Theorem C10_npr_old_domain_refuted : exists a b q, rat_wf a = true /\ rat_wf b = true /\
  ~ denotes_nat b /\ q_permutation_old a b = Ok q.
Proof. exact npr_old_domain_refuted_lemma. Qed.
Print Assumptions C10_npr_old_domain_refuted.

Theorem C10_npr_old_domain_except_known : forall a b, rat_wf a = true -> rat_wf b = true ->
  ~ denotes_nat b -> known_C10_npr_negative_r_old b = false -> is_err (q_permutation_old a b).
Proof. exact npr_old_domain_except_known_lemma. Qed.
Print Assumptions C10_npr_old_domain_except_known.

(* ---------------- the hypotheses are satisfiable ---------------- *)

Example C10_wf_inhabited :
  wf (Large [5; 0]) = true /\ wf (Large [18446744073709551615; 3; 0; 0]) = true /\ wf (Small 7) = true.
Proof. repeat split. Qed.

Example C10_try_as_usize_inhabited : try_as_usize (Large [130]) = Ok 130.
Proof. reflexivity. Qed.

Example C10_rat_repr_inhabited :
  rat_repr (mkrat false (Small 10) (Small 2)) 5 /\ rat_repr (mkrat true (Large [0; 0]) (Small 3)) 0.
Proof. split; (split; [reflexivity|split; [reflexivity|auto]]). Qed.

Example C10_bad_domain_inhabited :
  rat_wf (mkrat false (Small 5) (Small 2)) = true /\ ~ denotes_nat (mkrat false (Small 5) (Small 2)).
Proof. exact bad_domain_example. Qed.

Example C10_leading_zero_count_accepted : try_as_usize (Large [5; 0]) = Ok 5.
Proof. reflexivity. Qed.

Example C10_round_class_inhabited :
  known_C10_float_old (mkrat true (Small 7) (Small 1)) = false /\
  known_C10_float_old (mkrat false (Small 7) (Small 2)) = true.
Proof. split; reflexivity. Qed.

Example C10_beyond_u64_inhabited :
  let q := mkrat false (Large [1; 1]) (Small 1) in
  rneg q = false /\ dval q <> 0 /\ (W + 1) * dval q <= nval q.
Proof. exact beyond_u64_example. Qed.
