(* C01 -- Exact arithmetic on rationals and complex rationals is exact.
   Property theorems only; each closed by [exact].  The model is
   coq/Num/BigUint.v (limb arithmetic, mirror of core/src/num/biguint.rs). *)
From Coq Require Import Lia.
From FendV Require Import Base.Prelude Num.BigUint Num.BigUintProofs.
Open Scope N_scope.

(* ---------------- BigUint: limb arithmetic against N ---------------- *)

(* add: full strength since the repair fcf264e.  (The code before it lost the
   final carry for a Small left operand: BigUintProofs.add_old_refuted_witness.) *)
Theorem C01_add_spec : forall a b, wf a = true -> wf b = true ->
  wf (add a b) = true /\ val (add a b) = val a + val b.
Proof. exact add_spec. Qed.
Print Assumptions C01_add_spec.

Theorem C01_sub_spec : forall oc a b, wf a = true -> wf b = true -> val b <= val a ->
  exists r, sub oc a b = Ok r /\ wf r = true /\ val r = val a - val b.
Proof. exact sub_spec. Qed.
Print Assumptions C01_sub_spec.

Theorem C01_sub_panic_iff : forall a b, wf a = true -> wf b = true ->
  (exists k, sub true a b = Panic k) <-> val a < val b.
Proof. exact sub_panic_iff. Qed.
Print Assumptions C01_sub_panic_iff.

Theorem C01_mul_spec : forall a b, wf a = true -> wf b = true ->
  wf (mul a b) = true /\ val (mul a b) = val a * val b.
Proof. exact mul_spec. Qed.
Print Assumptions C01_mul_spec.

Theorem C01_cmp_spec : forall a b, wf a = true -> wf b = true ->
  cmp a b = N.compare (val a) (val b).
Proof. exact cmp_spec. Qed.
Print Assumptions C01_cmp_spec.

Theorem C01_lshift_spec : forall a, wf a = true ->
  exists r, lshift a = Ok r /\ wf r = true /\ val r = 2 * val a.
Proof. exact lshift_spec. Qed.
Print Assumptions C01_lshift_spec.

Theorem C01_rshift_spec : forall a, wf a = true ->
  wf (rshift a) = true /\ val (rshift a) = val a / 2 /\ get a 0 mod 2 = val a mod 2.
Proof. exact rshift_spec. Qed.
Print Assumptions C01_rshift_spec.

Theorem C01_divmod_spec : forall oc a b, wf a = true -> wf b = true -> val b <> 0 ->
  exists q r, divmod oc a b = Ok (q, r) /\ wf q = true /\ wf r = true /\
    val a = val q * val b + val r /\ val r < val b.
Proof. exact divmod_spec. Qed.
Print Assumptions C01_divmod_spec.

Theorem C01_divmod_by_zero : forall oc a b, wf a = true -> wf b = true -> val b = 0 ->
  divmod oc a b = Err EDivByZero.
Proof. exact divmod_zero. Qed.
Print Assumptions C01_divmod_by_zero.

Theorem C01_gcd_spec : forall oc a b, wf a = true -> wf b = true ->
  exists g, gcd oc a b = Ok g /\ wf g = true /\ val g = N.gcd (val a) (val b).
Proof. exact gcd_spec. Qed.
Print Assumptions C01_gcd_spec.

(* pow: full strength since the repair 2c2d128 (significant limbs).  (The code
   before it refused Large [5; 0]: BigUintProofs.pow_old_refuted_witness.) *)
Theorem C01_pow_spec : forall a b, wf a = true -> wf b = true ->
  match pow a b with
  | Ok r => wf r = true /\ val r = val a ^ val b /\ ~ (val a = 0 /\ val b = 0)
  | Err EZeroPowZero => val a = 0 /\ val b = 0
  | Err EExpTooLarge => W <= val b
  | _ => False
  end.
Proof. exact pow_spec. Qed.
Print Assumptions C01_pow_spec.

(* non-vacuity: non-canonical multi-limb operands satisfy the hypotheses *)
Example C01_hypotheses_inhabited :
  wf (Large [0; W - 1; 0; 0]) = true /\ wf (Small (W - 1)) = true /\ wf (Large [5; 0]) = true /\
  add_known (Large [0; W - 1; 0; 0]) (Small 3) = false /\
  add_known (Small 7) (Large [W - 1; W - 2]) = false.
Proof. exact wf_inhabited. Qed.
