(* C01 -- Exact arithmetic on rationals and complex rationals is exact.
   Property theorems only; each closed by [exact].  The models are
   coq/Num/BigUint.v (limb arithmetic, mirror of core/src/num/biguint.rs),
   coq/Num/BigRat.v (bigrat.rs), coq/Num/RealCx.v (Exact<Real>, Exact<Complex>,
   the unitless Value layer) and coq/Num/Expr.v (expression trees, the
   specification cval in Coq's Q). *)
From Coq Require Import Lia QArith Qpower Qreduction Qabs.
From FendV Require Import Base.Prelude Num.BigUint Num.BigUintProofs Num.BigRat Num.BigRatProofs
  Num.RealCx Num.RealCxProofs Num.Expr Num.ExprProofs.
Open Scope N_scope.

(* ---------------- BigUint: limb arithmetic against N ---------------- *)

(* add: full strength since the repair fcf264e.  (The code before it lost the
   final carry for a Small left operand: BigUintProofs.add_old_refuted_witness.) *)
Theorem C01_add_spec : forall a b, wf a = true -> wf b = true ->
  wf (add a b) = true /\ val (add a b) = val a + val b.
Proof. exact add_spec. Qed.
Print Assumptions C01_add_spec.

Theorem C01_sub_spec : forall oc a b, wf a = true -> wf b = true -> val b <= val a ->
  exists r, sub oc a b = Ok r /\ wf r = true /\ val r = val a - val b.
Proof. exact sub_spec. Qed.
Print Assumptions C01_sub_spec.

Theorem C01_sub_panic_iff : forall a b, wf a = true -> wf b = true ->
  (exists k, sub true a b = Panic k) <-> val a < val b.
Proof. exact sub_panic_iff. Qed.
Print Assumptions C01_sub_panic_iff.

Theorem C01_mul_spec : forall a b, wf a = true -> wf b = true ->
  wf (mul a b) = true /\ val (mul a b) = val a * val b.
Proof. exact mul_spec. Qed.
Print Assumptions C01_mul_spec.

Theorem C01_cmp_spec : forall a b, wf a = true -> wf b = true ->
  cmp a b = N.compare (val a) (val b).
Proof. exact cmp_spec. Qed.
Print Assumptions C01_cmp_spec.

Theorem C01_lshift_spec : forall a, wf a = true ->
  exists r, lshift a = Ok r /\ wf r = true /\ val r = 2 * val a.
Proof. exact lshift_spec. Qed.
Print Assumptions C01_lshift_spec.

Theorem C01_rshift_spec : forall a, wf a = true ->
  wf (rshift a) = true /\ val (rshift a) = val a / 2 /\ get a 0 mod 2 = val a mod 2.
Proof. exact rshift_spec. Qed.
Print Assumptions C01_rshift_spec.

Theorem C01_divmod_spec : forall oc a b, wf a = true -> wf b = true -> val b <> 0 ->
  exists q r, divmod oc a b = Ok (q, r) /\ wf q = true /\ wf r = true /\
    val a = val q * val b + val r /\ val r < val b.
Proof. exact divmod_spec. Qed.
Print Assumptions C01_divmod_spec.

Theorem C01_divmod_by_zero : forall oc a b, wf a = true -> wf b = true -> val b = 0 ->
  divmod oc a b = Err EDivByZero.
Proof. exact divmod_zero. Qed.
Print Assumptions C01_divmod_by_zero.

Theorem C01_gcd_spec : forall oc a b, wf a = true -> wf b = true ->
  exists g, gcd oc a b = Ok g /\ wf g = true /\ val g = N.gcd (val a) (val b).
Proof. exact gcd_spec. Qed.
Print Assumptions C01_gcd_spec.

(* pow: full strength since the repair 2c2d128 (significant limbs).  (The code
   before it refused Large [5; 0]: BigUintProofs.pow_old_refuted_witness.) *)
Theorem C01_pow_spec : forall a b, wf a = true -> wf b = true ->
  match pow a b with
  | Ok r => wf r = true /\ val r = val a ^ val b /\ ~ (val a = 0 /\ val b = 0)
  | Err EZeroPowZero => val a = 0 /\ val b = 0
  | Err EExpTooLarge => W <= val b
  | _ => False
  end.
Proof. exact pow_spec. Qed.
Print Assumptions C01_pow_spec.

(* ---------------- BigRat against Q ---------------- *)

(* add_internal: gcd/lcm denominators and every sign case; in particular the
   unreachable!() of BigUint::sub and the assert are never reached *)
Theorem C01_rat_add_spec : forall oc x y, wfr x = true -> wfr y = true ->
  exists r, add_internal oc x y = Ok r /\ wfr r = true /\ (qval r == qval x + qval y)%Q.
Proof. exact radd_spec. Qed.
Print Assumptions C01_rat_add_spec.

Theorem C01_rat_mul_spec : forall x y, wfr x = true -> wfr y = true ->
  wfr (rmul x y) = true /\ (qval (rmul x y) == qval x * qval y)%Q.
Proof. exact rmul_spec. Qed.
Print Assumptions C01_rat_mul_spec.

Theorem C01_rat_div_spec : forall x y, wfr x = true -> wfr y = true ->
  if val (rnum y) =? 0 then rdiv x y = Err EDivByZero
  else exists r, rdiv x y = Ok r /\ wfr r = true /\ (qval r == qval x / qval y)%Q.
Proof. exact rdiv_spec. Qed.
Print Assumptions C01_rat_div_spec.

Theorem C01_rat_neg_spec : forall x, (qval (rneg x) == - qval x)%Q.
Proof. exact qval_neg. Qed.
Print Assumptions C01_rat_neg_spec.

Theorem C01_rat_simplify_spec : forall oc x, wfr x = true ->
  exists r, simplify oc x = Ok r /\ wfr r = true /\ rsign r = rsign x /\
    val (rnum r) = val (rnum x) / N.gcd (val (rnum x)) (val (rden x)) /\
    val (rden r) = val (rden x) / N.gcd (val (rnum x)) (val (rden x)) /\
    N.gcd (val (rnum r)) (val (rden r)) = 1 /\ (qval r == qval x)%Q.
Proof. exact simplify_spec. Qed.
Print Assumptions C01_rat_simplify_spec.

(* Ord::cmp goes through add and unwraps: the unwrap never fails *)
Theorem C01_rat_cmp_spec : forall oc x y, wfr x = true -> wfr y = true ->
  rcmp oc x y = Ok (qval x ?= qval y)%Q.
Proof. exact rcmp_spec. Qed.
Print Assumptions C01_rat_cmp_spec.

(* pow with an integer-valued exponent z (however it is written: 6/2, -0, ...) *)
Theorem C01_rat_pow_spec : forall oc x y z, wfr x = true -> wfr y = true -> (qval y == inject_Z z)%Q ->
  match rpow oc x y with
  | Ok (r, fl) => fl = true /\ wfr r = true /\ (qval r == Qpower (qval x) z)%Q /\
                  ~ ((qval x == 0)%Q /\ (z <= 0)%Z)
  | Err EZeroPowZero => (qval x == 0)%Q /\ z = 0%Z
  | Err EDivByZero => (qval x == 0)%Q /\ (z < 0)%Z
  | Err EExpTooLarge => (Z.of_N W <= Z.abs z)%Z
  | _ => False
  end.
Proof. exact rpow_spec. Qed.
Print Assumptions C01_rat_pow_spec.

(* ---------------- expressions ---------------- *)

(* For every expression tree over well-formed rational literals (any limb
   representation), + - * / unary minus, i, real/imag/conjugate and powers
   (real rational)^(integer): if the model returns a value, the exact flag is
   set and the value is the complex rational the expression denotes (cval,
   arithmetic in Q, canonical form); the only other outcomes are the three
   admissible errors, each caused by a subterm; no panic site (unwrap,
   unreachable!, assert, overflow check) is ever reached.
   [cval e <> COutside] says that every power inside e has a real base and an
   integer real exponent (the property's fragment). *)
Theorem C01_exact : forall oc e, wf_lits e = true -> cval e <> COutside ->
  match meval oc e with
  | Ok (z, fl) => fl = true /\ wfc z = true /\ cval e = cq z
  | Err EDivByZero => exists_sub node_div0 e
  | Err EZeroPowZero => exists_sub node_zero_pow_zero e
  | Err EExpTooLarge => exists_sub node_exp_too_large e
  | _ => False
  end.
Proof. exact exact. Qed.
Print Assumptions C01_exact.

(* non-vacuity: non-canonical multi-limb operands satisfy the hypotheses *)
Example C01_hypotheses_inhabited :
  wf (Large [0; W - 1; 0; 0]) = true /\ wf (Small (W - 1)) = true /\ wf (Large [5; 0]) = true /\
  add_known (Large [0; W - 1; 0; 0]) (Small 3) = false /\
  add_known (Small 7) (Large [W - 1; W - 2]) = false.
Proof. exact wf_inhabited. Qed.

Example C01_rat_hypotheses_inhabited :
  wfr (mkrat Negative (Large [0; 5; 0]) (Large [3; 1])) = true /\
  wfr (mkrat Positive (Small 0) (Small 7)) = true.
Proof. exact wfr_inhabited. Qed.

Example C01_exact_hypotheses_inhabited :
  wf_lits example_expr = true /\ cval example_expr <> COutside /\
  exists z, meval true example_expr = Ok (z, true).
Proof. exact exact_hypotheses_inhabited. Qed.
