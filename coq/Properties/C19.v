(* C19 -- The CLI is a faithful front-end to the core.  Property theorems
   only; each closed by [exact].

   Model: Cli/Front.v.  Oracles (Section variables, universally quantified
   here): the file system [read], fend_core [core] on an abstract context
   type, the texts of --help / --version / --default-config, the `toml`
   crate (a value tree or a failure), terminal detection.  What is proved is
   the decision logic of cli/src/args.rs, main.rs (eval_exprs, real_main) and
   the serde visitors of config.rs / custom_units.rs -- partial by nature. *)
From FendV Require Import Base.Prelude Cli.Rates Cli.Front Cli.FrontProofs.
Open Scope N_scope.

(* ---- arguments -------------------------------------------------------- *)

(* The accumulator loop of Action::from_args computes: lex the arguments
   (options, -e/-f with their operand, `--`, readable files, words), then
   help > version > default-config > repl/eval, where the expressions are the
   complete ones (-e, file contents) in order, and every maximal run of
   non-blank words between them joined by single spaces. *)
Theorem C19_args_fold_spec : forall read args, from_args read args = spec_from_args read args.
Proof. exact args_fold_spec. Qed.
Print Assumptions C19_args_fold_spec.

Theorem C19_args_positional_join : forall read args,
  (forall a, In a args ->
     is_one_of a (HELP_WORDS ++ VERSION_WORDS ++ DEFCFG_WORDS ++ FILE_WORDS ++ EVAL_WORDS ++ [B"--"]) = false
     /\ read a = None) ->
  from_args read args =
    AOk (match filter (fun w => negb (blank w)) args with
         | [] => ARepl
         | ws => AEval [join_sp ws]
         end).
Proof. exact args_positional_join. Qed.
Print Assumptions C19_args_positional_join.

Theorem C19_args_help_wins : forall read args its,
  lex read true args = LOk its -> existsb is_help its = true -> from_args read args = AOk AHelp.
Proof. exact args_help_wins. Qed.
Print Assumptions C19_args_help_wins.

(* ---- evaluation, printing, exit status -------------------------------- *)

(* If every expression evaluates, exactly the rendering of the last result is
   printed (nothing for unit / empty results, no newline under
   @no_trailing_newline), nothing on stderr, status 0. *)
Theorem C19_prints_last : forall ctx core es c, es <> [] ->
  forallb is_cok (results ctx core c es) = true ->
  eval_exprs ctx core c es = mkout (render (last (results ctx core c es) (CErr []))) [] 0.
Proof. exact prints_last. Qed.
Print Assumptions C19_prints_last.

Theorem C19_exit_code : forall ctx core es c,
  (o_exit (eval_exprs ctx core c es) = 0 <-> forallb is_cok (results ctx core c es) = true) /\
  (o_exit (eval_exprs ctx core c es) = 0 \/ o_exit (eval_exprs ctx core c es) = 1).
Proof. exact exit_code. Qed.
Print Assumptions C19_exit_code.

Theorem C19_error_shape : forall ctx core es c,
  o_exit (eval_exprs ctx core c es) = 1 ->
  o_stdout (eval_exprs ctx core c es) = [] /\
  exists m, o_stderr (eval_exprs ctx core c es) = B"Error: " ++ m ++ [10].
Proof. exact error_shape. Qed.
Print Assumptions C19_error_shape.

(* The first failing expression ends the run: its message, status 1, nothing
   printed, whatever follows. *)
Theorem C19_stops_at_first_error : forall ctx core pre c e post m,
  forallb is_cok (results ctx core c pre) = true ->
  snd (core (ctx_after ctx core c pre) e) = CErr m ->
  eval_exprs ctx core c (pre ++ e :: post) = mkout [] (B"Error: " ++ m ++ [10]) 1.
Proof. exact stops_at_first_error. Qed.
Print Assumptions C19_stops_at_first_error.

(* Variables carry over: after a successful expression the rest runs on the
   context that expression left. *)
Theorem C19_vars_carry : forall ctx core c e r, r <> [] -> is_cok (snd (core c e)) = true ->
  eval_exprs ctx core c (e :: r) = eval_exprs ctx core (fst (core c e)) r.
Proof. exact vars_carry. Qed.
Print Assumptions C19_vars_carry.

Theorem C19_stdin_mode : forall ctx core h v d c0 input e,
  main_out ctx core h v d c0 (AOk ARepl) (Piped (Some input)) e = Some (eval_exprs ctx core c0 [input]).
Proof. exact stdin_mode. Qed.
Print Assumptions C19_stdin_mode.

Theorem C19_arg_errors_exit_1 : forall ctx core h v d c0 a stdin e,
  (forall x, a <> AOk x) -> exists o, main_out ctx core h v d c0 a stdin e = Some o /\ o_exit o = 1 /\ o_stdout o = [].
Proof. exact arg_errors_exit_1. Qed.
Print Assumptions C19_arg_errors_exit_1.

(* ---- configuration ----------------------------------------------------- *)

(* config_total: whatever the file holds, read_config yields a configuration
   (the function is total; no panic site exists in the visitors), namely: *)
Theorem C19_config_cases : forall f,
  match f with
  | FAbsent => read_config f = (default_config, [])
  | FNotUtf8 => read_config f = (default_config, [DNotUtf8])
  | FTomlError => read_config f = (default_config, [DInvalid])
  | FTree kv =>
    (visit_config kv default_config seen0 = None /\ read_config f = (default_config, [DInvalid])) \/
    (exists c, visit_config kv default_config seen0 = Some c /\ read_config f = (c, warnings c))
  end.
Proof. exact config_cases. Qed.
Print Assumptions C19_config_cases.

Theorem C19_malformed_gives_default : forall f,
  (f = FNotUtf8 \/ f = FTomlError \/ (exists kv, f = FTree kv /\ visit_config kv default_config seen0 = None)) ->
  fst (read_config f) = default_config /\ snd (read_config f) <> [].
Proof. exact malformed_gives_default. Qed.
Print Assumptions C19_malformed_gives_default.

Theorem C19_unknown_keys_ignored : forall kv1 k v kv2 c n,
  is_one_of k KNOWN_KEYS = false ->
  match visit_config (kv1 ++ (k, v) :: kv2) c n, visit_config (kv1 ++ kv2) c n with
  | Some a, Some b => same_settings a b
  | None, None => True
  | _, _ => False
  end.
Proof. exact unknown_keys_ignored. Qed.
Print Assumptions C19_unknown_keys_ignored.

Theorem C19_unknown_keys_listed : forall kv c n c',
  visit_config kv c n = Some c' ->
  exists extra, c_unknown c' = c_unknown c ++ extra /\
    forall k, In k extra -> In k (map fst kv) /\ is_one_of k KNOWN_KEYS = false.
Proof. exact unknown_keys_listed. Qed.
Print Assumptions C19_unknown_keys_listed.

(* ---- non-vacuity -------------------------------------------------------- *)

Definition ex_read (p : str) : option str :=
  if list_N_eqb p (B"script.txt") then Some (B"x = 2") else None.

Example C19_args_example :
  from_args ex_read [B"1"; B"+"; B" "; B"2"; B"-e"; B"a = 3"; B"script.txt"; B"--"; B"-e"; B"x"]
  = AOk (AEval [B"1 + 2"; B"a = 3"; B"x = 2"; B"-e x"]).
Proof. vm_compute. reflexivity. Qed.

Example C19_positional_hypothesis_inhabited :
  forall a, In a [B"1"; B"+"; B"2"] ->
     is_one_of a (HELP_WORDS ++ VERSION_WORDS ++ DEFCFG_WORDS ++ FILE_WORDS ++ EVAL_WORDS ++ [B"--"]) = false
     /\ ex_read a = None.
Proof. intros a [<-|[<-|[<-|[]]]]; vm_compute; split; reflexivity. Qed.

(* a scripted core: the context counts evaluations; the third expression fails *)
Definition ex_core (c : nat) (e : str) : nat * cres :=
  (S c, match c with
        | 2%nat => CErr (B"boom")
        | _ => COk e false true false
        end).

Example C19_eval_example :
  eval_exprs nat ex_core 0%nat [B"a"; B"b"] = mkout (B"b" ++ [10]) [] 0 /\
  eval_exprs nat ex_core 0%nat [B"a"; B"b"; B"c"; B"d"] = mkout [] (B"Error: boom" ++ [10]) 1.
Proof. vm_compute. split; reflexivity. Qed.

Example C19_config_example :
  exists c, read_config (FTree [(B"coulomb-and-farad", TBool true); (B"zzz", TInt 5);
                                (B"decimal-separator-style", TStr (B"comma"))]) = (c, [DUnknownKey (B"zzz")])
            /\ c_coulomb c = true /\ c_comma c = true.
Proof. eexists. vm_compute. repeat split. Qed.

Example C19_config_rejected_example :
  visit_config [(B"prompt", TInt 5)] default_config seen0 = None /\
  is_one_of (B"zzz") KNOWN_KEYS = false.
Proof. vm_compute. split; reflexivity. Qed.
