(* C15 -- Elementary functions are accurate, flagged, and exact at special
   points.  Property theorems only; each closed by [exact]. *)
From FendV Require Import Base.Prelude Elem.Bridge Elem.Model Elem.TrigReals.
From Coq Require Import QArith Qreals Reals.
Open Scope R_scope.

(* sin at every multiple z*pi/6 whose sine is rational (residue of |z| mod 12
   not in {2,4,8,10}), for every z below the usize cut-off, in any
   representation n of z/6, and for any libm: answered from the table, marked
   exact, and equal to the real sine. *)
Theorem C15_sin_special : forall (Fo : oracles) (z : Z),
  (Z.abs z < 2 ^ 64)%Z -> good_residue (Z.abs_N z) = true ->
  forall n, (n == z # 6)%Q ->
  exists v, real_sin Fo (RPi n) = Ok (mkEx (RSimple v) true)
            /\ Q2R v = sin (IZR z * PI / 6).
Proof. exact sin_special_lemma. Qed.
Print Assumptions C15_sin_special.
