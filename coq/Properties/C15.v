(* C15 -- Elementary functions are accurate, flagged, and exact at special
   points.  Property theorems only; each closed by [exact].

   Model: Elem/Bridge.v (soft-float binary64, into_f64, from_f64, BigUint::log2)
   and Elem/Model.v (Real::sin/cos table, approximate = the rational used for
   pi, BigRat functions, pow/root_n, angle units).  libm is a parameter
   [Fo : oracles] (bit pattern -> bit pattern): every theorem below holds for
   EVERY libm unless it names a hypothesis about it.

   The model follows /repo at the four fix commits d752faf (from_f64),
   06c1b45 (6n mod 12), d3c0150 (x^0), bd3b9a9 (cos keeps the flag); the
   functions before them are kept as *_old with the refutation witnesses that
   motivated the repairs (documentation, not obligations on the code).

   Status of the clauses of the property statement:
     exact at the documented points, unmarked ....... theorems (1)-(6), (12)-(13)
     everything else marked approximate .............. theorems (7)-(8)
     pi and e ........................................ theorems (9)-(10)
     angle units converted before use ................ theorem (11)
     the f64 bridge (conversion, saturation, NaN) .... theorems (14)-(16)
     accuracy 1e-9*max(1,|true|) up to 10^3 .......... stated in full as
         [C15_accuracy_statement]; proved conditionally for sin, cos, atan
         (17)-(19) from a libm hypothesis and a conversion hypothesis, with
         the error budget of the bridge proved for any Lipschitz function (20);
         REFUTED in general (21)-(24) with witnesses that hold for every
         correct libm.                                                       *)
From FendV Require Import Base.Prelude Elem.Bridge Elem.Model Elem.ModelProofs
  Elem.BridgeProofs Elem.RootProofs Elem.RoundProofs Elem.RoundMulti Elem.TrigReals Elem.PointDefs
  Elem.Accuracy Elem.AccuracySmall Elem.AccuracyMulti Elem.LogAccuracy Elem.AngleTable.
From Coq Require Import QArith Qabs Qreals Reals.
Open Scope R_scope.

(* ---------------------------------------------------------------- (1) *)
(* sin at EVERY multiple z*pi/6 whose sine is rational (|z| mod 12 not in
   {2,4,8,10}) -- no bound on z --, in any representation n of z/6, for any
   libm: answered from the table, marked exact, equal to the real sine. *)
Theorem C15_sin_special : forall (Fo : oracles) (z : Z) (n : Q),
  (n == z # 6)%Q -> good_residue (Z.abs_N z) = true ->
  exists v, real_sin Fo (RPi n) = Ok (mkEx (RSimple v) true)
            /\ Q2R v = sin (IZR z * PI / 6).
Proof. exact sin_special_lemma. Qed.
Print Assumptions C15_sin_special.

(* ---------------------------------------------------------------- (2) *)
Theorem C15_cos_special : forall (Fo : oracles) (z : Z),
  good_residue (Z.abs_N (z + 3)) = true ->
  exists v, real_cos Fo (RPi (z # 6)) = Ok (mkEx (RSimple v) true)
            /\ Q2R v = cos (IZR z * PI / 6).
Proof. exact cos_special_lemma. Qed.
Print Assumptions C15_cos_special.

(* multiples of pi/2 (z = 3k) always have a good residue *)
Theorem C15_half_pi_multiples_good : forall k : N, good_residue (3 * k) = true.
Proof. exact good_residue_mul3. Qed.
Print Assumptions C15_half_pi_multiples_good.

(* ---------------------------------------------------------------- (3) *)
(* The code before fix commit 06c1b45 (try_as_usize of 6n itself): the same
   statement held only below the usize cut-off ... *)
Theorem C15_sin_special_old : forall (Fo : oracles) (z : Z) (n : Q),
  (Z.abs z < 2 ^ 64)%Z -> (n == z # 6)%Q -> good_residue (Z.abs_N z) = true ->
  exists v, real_sin_old Fo (RPi n) = Ok (mkEx (RSimple v) true)
            /\ Q2R v = sin (IZR z * PI / 6).
Proof. exact sin_old_special_lemma. Qed.
Print Assumptions C15_sin_special_old.

(* ... and was REFUTED without it: sin(2^70 pi) = 0 is a documented exact
   point; for every libm the old result was marked approximate. *)
Theorem C15_sin_special_old_unbounded_refuted :
  exists (z : Z) (n : Q), (n == z # 6)%Q /\ good_residue (Z.abs_N z) = true /\
    forall Fo, exists r, real_sin_old Fo (RPi n) = r /\
      forall v, r = Ok v -> exb v = false.
Proof. exact sin_old_special_unbounded_refuted_lemma. Qed.
Print Assumptions C15_sin_special_old_unbounded_refuted.

(* the classifier of the (fixed) class big_pi_multiple at the old cut-off:
   6 * 3074457345618258603 = 2^64 + 2 *)
Theorem C15_big_pi_classifier_examples :
  known_big_pi_multiple (2 ^ 70 # 1)%Q = true /\
  known_big_pi_multiple (3074457345618258603 # 1)%Q = true /\
  known_big_pi_multiple (3074457345618258603 # 2)%Q = false /\
  known_big_pi_multiple (3074457345618258602 # 1)%Q = false.
Proof. exact known_big_pi_examples. Qed.
Print Assumptions C15_big_pi_classifier_examples.

(* ---------------------------------------------------------------- (4) *)
(* soundness of the exact flag of sin, for EVERY rational multiple n of pi
   (unbounded, any representation, either sign) and every rational s *)
Theorem C15_sin_exact_flag_sound : forall Fo n v,
  real_sin Fo (RPi n) = Ok (mkEx v true) -> real_val v = sin (Q2R n * PI).
Proof. exact sin_pi_exact_sound. Qed.
Print Assumptions C15_sin_exact_flag_sound.

Theorem C15_sin_rational_exact_flag_sound : forall Fo s v,
  real_sin Fo (RSimple s) = Ok (mkEx v true) -> real_val v = sin (Q2R s).
Proof. exact sin_simple_exact_sound. Qed.
Print Assumptions C15_sin_rational_exact_flag_sound.

(* ---------------------------------------------------------------- (5) *)
Theorem C15_cos_exact_flag_sound : forall Fo n v,
  real_cos Fo (RPi n) = Ok (mkEx v true) -> real_val v = cos (Q2R n * PI).
Proof. exact cos_pi_exact_sound. Qed.
Print Assumptions C15_cos_exact_flag_sound.

(* ---------------------------------------------------------------- (6) *)
(* cos of a rational: the flag is sound (exact only at x = 0), without
   exception since fix commit bd3b9a9 *)
Theorem C15_cos_rational_exact_flag_sound : forall Fo a v,
  real_cos Fo (RSimple a) = Ok (mkEx v true) -> real_val v = cos (Q2R a).
Proof. exact cos_simple_exact_sound. Qed.
Print Assumptions C15_cos_rational_exact_flag_sound.

(* before it: at x = -pi_model/2 the sum x + pi_model/2 = 0 made sin return an
   exact 0 (REFUTED) -- sound outside that single rational *)
Theorem C15_cos_rational_exact_flag_old_refuted : forall Fo,
  exists a v, real_cos_old Fo (RSimple a) = Ok (mkEx v true) /\ real_val v <> cos (Q2R a).
Proof. exact cos_old_simple_exact_refuted_lemma. Qed.
Print Assumptions C15_cos_rational_exact_flag_old_refuted.

Theorem C15_cos_rational_exact_flag_old_except_known : forall Fo a v,
  ~ (a + (1 # 2) * pi_model == 0)%Q ->
  real_cos_old Fo (RSimple a) = Ok (mkEx v true) -> real_val v = cos (Q2R a).
Proof. exact cos_old_simple_exact_except_known. Qed.
Print Assumptions C15_cos_rational_exact_flag_old_except_known.

(* ---------------------------------------------------------------- (7) *)
(* flags of the BigRat functions: the only results not marked approximate are
   sin 0, ln 1 and exp 0, and they are the true values *)
Theorem C15_bridge_marked : forall Fo f q v,
  rat_fn Fo f q = Ok v -> exb v = true ->
  (f = Fsin /\ Q2R (exv v) = sin (Q2R q)) \/
  (f = Fln /\ Q2R (exv v) = ln (Q2R q)) \/
  (f = Fexp /\ Q2R (exv v) = exp (Q2R q)).
Proof. exact rat_fn_exact_values. Qed.
Print Assumptions C15_bridge_marked.

Theorem C15_bridge_marked_where : forall Fo f q v,
  rat_fn Fo f q = Ok v -> exb v = true ->
  (f = Fsin /\ (q == 0)%Q /\ exv v = 0%Q) \/
  (f = Fln /\ (q == 1)%Q /\ exv v = 0%Q) \/
  (f = Fexp /\ (q == 0)%Q /\ exv v = 1%Q).
Proof. exact rat_fn_exact_cases. Qed.
Print Assumptions C15_bridge_marked_where.

(* ---------------------------------------------------------------- (8) *)
Theorem C15_real_fn_marked : forall Fo f r v,
  real_fn Fo f r = Ok v ->
  f <> Fsin -> f <> Fcos -> f <> Fln -> f <> Fexp -> exb v = false.
Proof. exact real_fn_bridge_marked. Qed.
Print Assumptions C15_real_fn_marked.

Theorem C15_ln_exp_exact_only_at : forall Fo f r v,
  (f = Fln \/ f = Fexp) -> real_fn Fo f r = Ok v -> exb v = true ->
  (f = Fln /\ (approximate r == 1)%Q /\ exv v = RSimple 0) \/
  (f = Fexp /\ (approximate r == 0)%Q /\ exv v = RSimple 1).
Proof. exact real_fn_ln_exp_exact. Qed.
Print Assumptions C15_ln_exp_exact_only_at.

(* ---------------------------------------------------------------- (9) *)
(* the rational Real::approximate computes for pi (two Chudnovsky terms, the
   square roots by 50 bisection steps), evaluated by the model to a literal *)
Theorem C15_pi_model_value : pi_model_res = Ok (Qmake pi_num pi_den).
Proof. exact pi_model_res_ok. Qed.
Print Assumptions C15_pi_model_value.

(* one obligation (the clauses share Interval's reflective machinery, whose
   assumption audit costs seconds per theorem) *)
Theorem C15_constants_accuracy :
  (* C15_pi_accuracy *)
  (Rabs (Q2R pi_model - PI) <= 1 / 10 ^ 23) /\
  (* C15_e_accuracy *)
  (Rabs (Q2R e_model - exp 1) <= 1 / 10 ^ 18).
Proof. exact (conj pi_accuracy_lemma e_accuracy_lemma). Qed.
Print Assumptions C15_constants_accuracy.

(* --------------------------------------------------------------- (10) *)
(* clause C15_e_accuracy: see the conjunction C15_constants_accuracy *)

(* --------------------------------------------------------------- (11) *)
(* degrees (and the other angle units) are converted to an exact multiple of
   pi before the function is applied *)
Theorem C15_degrees_to_rad_exact : forall x : Q,
  angle_to_rad UDegree x = RPi (x * (2 * (1 # 360)))%Q /\
  real_val (angle_to_rad UDegree x) = Q2R x * PI / 180.
Proof. exact degrees_to_rad_lemma. Qed.
Print Assumptions C15_degrees_to_rad_exact.

Theorem C15_angle_units_exact : forall x : Q,
  real_val (angle_to_rad UCircle x) = Q2R x * (2 * PI) /\
  real_val (angle_to_rad UArcmin x) = Q2R x * PI / 180 / 60 /\
  real_val (angle_to_rad UArcsec x) = Q2R x * PI / 180 / 3600 /\
  real_val (angle_to_rad URightangle x) = Q2R x * PI / 2 /\
  real_val (angle_to_rad UGradian x) = Q2R x * PI / 200 /\
  real_val (angle_to_rad URadian x) = Q2R x.
Proof. exact angle_units_lemma. Qed.
Print Assumptions C15_angle_units_exact.

(* ------------------------------------------------------------- (11b) *)
(* finite kernel check over the regenerated unit table (ALL_UNIT_DEFS and the
   resolver's answers of the tree under test, coq/Units/Generated/UnitTable.v):
   every name of the ANGLES group -- radian rad circle degree deg (degree sign)
   arcdeg arcmin arcminute arcsec arcsecond rightangle quadrant quintant
   sextant zodiac_sign turn revolution rev gradian gon grad mas, singular and
   plural -- resolves to exactly one of itself, is dimensionless, and reduces
   to radians with exactly the factor Model.unit_in_pi documents; and no
   definition of that group is left unchecked.  A typo in one table entry
   (say gradian = 1/10 rightangle) breaks this obligation. *)
Theorem C15_angle_unit_table :
  forallb (fun p => angle_entry_ok (fst p) (snd p)) angle_names = true.
Proof. exact angle_table_ok. Qed.
Print Assumptions C15_angle_unit_table.

Theorem C15_angle_unit_table_complete :
  forallb def_covered FendV.Units.Generated.UnitTable.gen_defs = true /\
  existsb (fun d => (fst d =? angles_group)%N) FendV.Units.Generated.UnitTable.gen_defs = true.
Proof. exact angle_table_complete. Qed.
Print Assumptions C15_angle_unit_table_complete.

(* --------------------------------------------------------------- (12) *)
(* x^1 = x and 1^x = 1: exact, unmarked, whatever the pattern *)
Theorem C15_pow_one : forall a, real_pow a (RSimple 1) = Ok (mkEx a true).
Proof. exact real_pow_one. Qed.
Print Assumptions C15_pow_one.

Theorem C15_one_pow : forall b, is_simple_one b = false ->
  real_pow (RSimple 1) b = Ok (mkEx (RSimple 1%Q) true).
Proof. exact real_one_pow. Qed.
Print Assumptions C15_one_pow.

(* --------------------------------------------------------------- (13) *)
(* x^0 = 1, exact and unmarked, for every non-zero x of either pattern
   (fix commit d3c0150; 0^0 stays an error) *)
Theorem C15_pow_zero : forall x, real_is_zero x = false ->
  real_pow x (RSimple 0) = Ok (mkEx (RSimple 1%Q) true).
Proof. exact real_pow_zero. Qed.
Print Assumptions C15_pow_zero.

(* before it: exact for a rational base, marked approximate for a Pi pattern *)
Theorem C15_pow_zero_old_except_known : forall x, (Qnum x <> 0)%Z ->
  exists v, real_pow_old (RSimple x) (RSimple 0) = Ok (mkEx (RSimple v) true) /\ (v == 1)%Q.
Proof. exact real_pow_old_zero. Qed.
Print Assumptions C15_pow_zero_old_except_known.

Theorem C15_pow_zero_old_refuted :
  exists x, real_pow_old x (RSimple 0) = Ok (mkEx (RSimple (1 # 1)%Q) false).
Proof. exists (RPi 1). exact real_pow_old_zero_pi_marked. Qed.
Print Assumptions C15_pow_zero_old_refuted.

(* 2^pi is in the domain, and an error *)
Theorem C15_pow_irrational_exponent_refuted :
  real_pow (RSimple 2) (RPi 1) = Err EExpTooLarge.
Proof. exact pow_two_pi_rejected. Qed.
Print Assumptions C15_pow_irrational_exponent_refuted.

(* ------------------------------------------------------------- (13b) *)
(* non-rational powers x^(p/q) are computed exactly: BigUint::root_n returns
   the floor of the root with a correct exact flag (partial correctness: for
   whatever it returns), and the 50 halvings of BigRat::iter_root_n end on
   the midpoint of a bracket of width 2^-50 that contains the n-th root of
   val -- for every val, every index n and every starting floor *)
Theorem C15_integer_root_sound : forall x n r b,
  biguint_root_n x n = Ok (r, b) ->
  (b = true /\ (r ^ n = x \/ n = 1 \/ x <= 1))%N \/
  (b = false /\ r ^ n < x /\ x < (r + 1) ^ n)%N.
Proof. exact biguint_root_n_sound. Qed.
Print Assumptions C15_integer_root_sound.

(* ... and it never exhausts the model's fuel: a root, or one of the two guards *)
Theorem C15_integer_root_total : forall x n,
  (exists r, biguint_root_n x n = Ok r) \/ biguint_root_n x n = Err EOutOfRange \/
  biguint_root_n x n = Panic 244.
Proof. exact biguint_root_n_total. Qed.
Print Assumptions C15_integer_root_total.

Theorem C15_root_bisection_bracket : forall low val n,
  (Qpower low (Z.of_N n) <= val)%Q -> (val <= Qpower (low + 1) (Z.of_N n))%Q ->
  exists lo hi : Q,
    (Qpower lo (Z.of_N n) <= val)%Q /\ (val <= Qpower hi (Z.of_N n))%Q /\
    (hi - lo == 1 # 1125899906842624)%Q /\
    (iter_root_n low val n == (lo + hi) / 2)%Q.
Proof. exact iter_root_n_bracket. Qed.
Print Assumptions C15_root_bisection_bracket.

(* --------------------------------------------------------------- (14) *)
(* BigRat::from_f64 (since fix commit d752faf), total behaviour:
   every finite f64 converts to a value within 2^-64 of it ... *)
Theorem C15_from_f64 : forall s m e,
  exists v, from_f64 (FFin s m e) = Ok v /\
            (Qabs (v - fl_valQ (FFin s m e)) <= 1 # (Z.to_pos (2 ^ 64)))%Q.
Proof. exact from_f64_total_lemma. Qed.
Print Assumptions C15_from_f64.

(* ... exactly from magnitude 2^64 on ... *)
Theorem C15_from_f64_exact_above : forall s m e,
  fl_saturates (FFin s m e) = true ->
  exists v, from_f64 (FFin s m e) = Ok v /\ (v == fl_valQ (FFin s m e))%Q.
Proof. exact from_f64_exact_above_lemma. Qed.
Print Assumptions C15_from_f64_exact_above.

(* ... and infinities and NaN are an error, never a number *)
Theorem C15_from_f64_nonfinite :
  from_f64 FNaN = Err EOther /\ forall s, from_f64 (FInf s) = Err EOther.
Proof. exact from_f64_nonfinite_lemma. Qed.
Print Assumptions C15_from_f64_nonfinite.

(* consequences for the bridge: a finite libm answer of any size is converted
   faithfully, a non-finite one is the error ValueTooLarge *)
Theorem C15_bridge_faithful : forall F q s m e,
  fl_of_bits (F (fl_bits (into_f64 q))) = FFin s m e ->
  exists v, bridge F q = Ok v /\ Rabs (Q2R v - fl_R (FFin s m e)) <= / 2 ^ 64.
Proof. exact bridge_faithful_lemma. Qed.
Print Assumptions C15_bridge_faithful.

Theorem C15_bridge_nonfinite_is_error : forall F q,
  (fl_of_bits (F (fl_bits (into_f64 q))) = FNaN \/
   exists s, fl_of_bits (F (fl_bits (into_f64 q))) = FInf s) ->
  bridge F q = Err EOther.
Proof. exact bridge_nonfinite_lemma. Qed.
Print Assumptions C15_bridge_nonfinite_is_error.

(* --------------------------------------------------------------- (15) *)
(* the function before the commit (saturating `as u128` cast), as
   documentation: below 2^64 the same 2^-64 bound; from 2^64 on and for both
   infinities exactly +-2^64; NaN was 0 *)
Theorem C15_from_f64_old_error : forall s m e,
  fl_saturates (FFin s m e) = false ->
  (Qabs (from_f64_old (FFin s m e) - fl_valQ (FFin s m e)) <= 1 # (Z.to_pos (2 ^ 64)))%Q.
Proof. exact from_f64_old_error_lemma. Qed.
Print Assumptions C15_from_f64_old_error.

Theorem C15_from_f64_old_saturates : forall s m e,
  fl_saturates (FFin s m e) = true ->
  (from_f64_old (FFin s m e) == inject_Z (sgnZ s (2 ^ 64)%N))%Q.
Proof. exact from_f64_old_saturation_lemma. Qed.
Print Assumptions C15_from_f64_old_saturates.

Theorem C15_from_f64_old_inf : forall s, (from_f64_old (FInf s) == inject_Z (sgnZ s (2 ^ 64)%N))%Q.
Proof. exact from_f64_old_inf. Qed.
Print Assumptions C15_from_f64_old_inf.

Theorem C15_from_f64_old_nan : (from_f64_old FNaN == 0)%Q.
Proof. exact from_f64_old_nan. Qed.
Print Assumptions C15_from_f64_old_nan.

(* --------------------------------------------------------------- (16) *)
(* into_f64 is unchanged: of (10^400+1)/10^400 it is inf/inf = NaN; what is
   left of the class into_f64_overflow is that such an argument is now
   rejected (ValueTooLarge) instead of being answered with 0 *)
Theorem C15_into_f64_nan_witness : into_f64 q_big_near_one = FNaN.
Proof. exact into_f64_big_near_one_is_nan. Qed.
Print Assumptions C15_into_f64_nan_witness.

Theorem C15_nan_is_error : forall Fo,
  fl_of_bits (Fo Fatan (fl_bits FNaN)) = FNaN ->
  real_fn Fo Fatan (RSimple q_big_near_one) = Err EOther.
Proof. exact nan_is_error_lemma. Qed.
Print Assumptions C15_nan_is_error.

(* --------------------------------------------------------- (17)-(19) *)
(* The headline bound, C15_accuracy:

     forall Fo, C15_accuracy_statement Fo
     i.e. forall f q, |q| <= 1000 -> in_domain f q ->
          exists v, real_fn Fo f (RSimple q) = Ok v /\
                    |v - true_fn f q| <= 1e-9 * max 1 |true_fn f q|

   cannot hold for an arbitrary libm and is refuted below even for a perfect
   one.  What is proved is the conditional form, for sin, cos and atan, from
   (a) a libm hypothesis at the single consulted point: the answer is finite
       and within 2^-52 of the real function (1 ulp for |y| <= 2),
   (b) a conversion hypothesis: into_f64 q within 2^-50 relative of q
       (checked bit-exactly against the implementation on every sampled
       input at L1; not proved for all q).
   Missing for the full statement: (b) as a theorem; the functions with
   unbounded derivative or exponential growth (asin acos acosh atanh sinh
   cosh exp ln log2 log10), for which the statement is false anyway. *)
(* the conditional accuracy theorems with BOTH hypotheses, and their one-limb
   instances with the libm hypothesis only: one conjunction *)
Theorem C15_accuracy_partial_all :
  (* C15_accuracy_partial *)
  (forall Fo q,
  Rabs (Q2R q) <= 1000 ->
  into_ok (/ 2 ^ 50) q -> libm_ok (Fo Fsin) sin (/ 2 ^ 52) (into_f64 q) ->
  exists v, real_fn Fo Fsin (RSimple q) = Ok v /\
            within_budget (real_val (exv v)) (true_fn Fsin (Q2R q))) /\
  (* C15_accuracy_partial_cos *)
  (forall Fo q,
  Rabs (Q2R q) <= 1000 -> (Qnum q =? 0)%Z = false ->
  let a := rat_add q ((1 # 2) * pi_model) in
  into_ok (/ 2 ^ 50) a -> libm_ok (Fo Fsin) sin (/ 2 ^ 52) (into_f64 a) ->
  exists v, real_fn Fo Fcos (RSimple q) = Ok v /\
            within_budget (real_val (exv v)) (true_fn Fcos (Q2R q))) /\
  (* C15_accuracy_partial_atan *)
  (forall Fo q,
  Rabs (Q2R q) <= 1000 ->
  into_ok (/ 2 ^ 50) q -> libm_ok (Fo Fatan) atan (/ 2 ^ 52) (into_f64 q) ->
  exists v, real_fn Fo Fatan (RSimple q) = Ok v /\
            within_budget (real_val (exv v)) (true_fn Fatan (Q2R q))) /\
  (* C15_accuracy_small_operands_sin *)
  (forall Fo q,
  Rabs (Q2R q) <= 1000 -> small_operands q ->
  libm_ok (Fo Fsin) sin (/ 2 ^ 52) (into_f64 q) ->
  exists v, real_fn Fo Fsin (RSimple q) = Ok v /\
            within_budget (real_val (exv v)) (true_fn Fsin (Q2R q))) /\
  (* C15_accuracy_small_operands_atan *)
  (forall Fo q,
  Rabs (Q2R q) <= 1000 -> small_operands q ->
  libm_ok (Fo Fatan) atan (/ 2 ^ 52) (into_f64 q) ->
  exists v, real_fn Fo Fatan (RSimple q) = Ok v /\
            within_budget (real_val (exv v)) (true_fn Fatan (Q2R q))).
Proof. exact (conj accuracy_partial_sin (conj accuracy_partial_cos (conj accuracy_partial_atan (conj accuracy_sin_small accuracy_atan_small)))). Qed.
Print Assumptions C15_accuracy_partial_all.

(* clause C15_accuracy_partial_cos: see the conjunction C15_accuracy_partial_all *)

(* clause C15_accuracy_partial_atan: see the conjunction C15_accuracy_partial_all *)

(* ------------------------------------------------------------- (19b) *)
(* hypothesis (b) is a THEOREM when the simplified numerator and denominator
   of the argument fit one 64-bit limb: the soft-float rounding is
   round-to-nearest with relative error 2^-53 in the normal range
   (C15_round_pos_rel_error), as_f64 of one limb costs two roundings, the
   division one more.  For those arguments the accuracy of sin and atan is
   conditional on the libm hypothesis alone. *)
Theorem C15_round_pos_rel_error : forall neg n d s, (0 < n)%N -> (0 < d)%N ->
  (-1022 <= sel_e n d + s <= 1022)%Z ->
  let v := RN n * p2 s / RN d in
  exists m, round_pos neg n d s = FFin neg m (sel_e n d + s - 52) /\
            (2 ^ 52 <= m <= 2 ^ 53)%N /\
            Rabs (RN m * p2 (sel_e n d + s - 52) - v) <= / 2 ^ 53 * v /\ 0 < v.
Proof. exact round_pos_rel_error. Qed.
Print Assumptions C15_round_pos_rel_error.

(* into_f64 accuracy, one limb and many limbs: one conjunction *)
Theorem C15_conversion_accuracy :
  (* C15_into_f64_small_accurate *)
  (forall q, small_operands q -> into_ok (/ 2 ^ 50) q) /\
  (* C15_as_f64_accurate *)
  (forall n, (0 < n < 2 ^ 1023)%N ->
  exists m e, as_f64 n = FFin false m e /\ (2 ^ 52 <= m <= 2 ^ 53)%N /\
              Rabs (RN m * p2 e - RN n) <= Ek 32 * RN n) /\
  (* C15_into_f64_accurate *)
  (forall q, ordinary_operands q -> Rabs (Q2R q) <= 1000 ->
  into_ok (/ 2 ^ 46) q).
Proof. exact (conj into_ok_small (conj as_f64_multi into_ok_ordinary)). Qed.
Print Assumptions C15_conversion_accuracy.

(* clause C15_accuracy_small_operands_sin: see the conjunction C15_accuracy_partial_all *)

(* clause C15_accuracy_small_operands_atan: see the conjunction C15_accuracy_partial_all *)

(* ------------------------------------------------------------- (19c) *)
(* MULTI-limb operands.  BigUint::as_f64 performs two roundings per limb; for
   every n below 2^1023 (up to 16 limbs) the result is within
   (1+2^-53)^32 - 1 < 33 * 2^-53 of n, and BigRat::into_f64 is within 2^-46
   relative of the rational whenever the simplified numerator and denominator
   are below 2^1023 and the quotient is between 2^-999 and 2^1000 in magnitude
   (below that the quotient enters the subnormal range of f64). *)
(* clause C15_as_f64_accurate: see the conjunction C15_conversion_accuracy *)

(* clause C15_into_f64_accurate: see the conjunction C15_conversion_accuracy *)

(* so the accuracy theorems lose their conversion hypothesis: the ONLY premise
   left is about libm at the single consulted point (finite answer within one
   ulp: absolute 2^-52 for sin cos atan tanh, 2^-50 for asinh, relative 2^-52
   for sinh and cosh) *)
(* sin cos atan tanh asinh sinh cosh: one conjunction, clause names in comments *)
Theorem C15_accuracy_libm_only :
  (* C15_accuracy_sin *)
  (forall Fo q,
  Rabs (Q2R q) <= 1000 -> ordinary_operands q ->
  libm_ok (Fo Fsin) sin (/ 2 ^ 52) (into_f64 q) ->
  exists v, real_fn Fo Fsin (RSimple q) = Ok v /\
            within_budget (real_val (exv v)) (true_fn Fsin (Q2R q))) /\
  (* C15_accuracy_cos *)
  (forall Fo q,
  Rabs (Q2R q) <= 1000 -> (Qnum q =? 0)%Z = false ->
  let a := rat_add q ((1 # 2) * pi_model) in
  ordinary_operands a ->
  libm_ok (Fo Fsin) sin (/ 2 ^ 52) (into_f64 a) ->
  exists v, real_fn Fo Fcos (RSimple q) = Ok v /\
            within_budget (real_val (exv v)) (true_fn Fcos (Q2R q))) /\
  (* C15_accuracy_atan *)
  (forall Fo q,
  Rabs (Q2R q) <= 1000 -> ordinary_operands q ->
  libm_ok (Fo Fatan) atan (/ 2 ^ 52) (into_f64 q) ->
  exists v, real_fn Fo Fatan (RSimple q) = Ok v /\
            within_budget (real_val (exv v)) (true_fn Fatan (Q2R q))) /\
  (* C15_accuracy_tanh *)
  (forall Fo q,
  Rabs (Q2R q) <= 1000 -> ordinary_operands q ->
  libm_ok (Fo Ftanh) tanh (/ 2 ^ 52) (into_f64 q) ->
  exists v, real_fn Fo Ftanh (RSimple q) = Ok v /\
            within_budget (real_val (exv v)) (true_fn Ftanh (Q2R q))) /\
  (* C15_accuracy_asinh *)
  (forall Fo q,
  Rabs (Q2R q) <= 1000 -> ordinary_operands q ->
  libm_ok (Fo Fasinh) arcsinh (/ 2 ^ 50) (into_f64 q) ->
  exists v, real_fn Fo Fasinh (RSimple q) = Ok v /\
            within_budget (real_val (exv v)) (true_fn Fasinh (Q2R q))) /\
  (* C15_accuracy_sinh *)
  (forall Fo q,
  Rabs (Q2R q) <= 1000 -> ordinary_operands q ->
  libm_rel (Fo Fsinh) sinh (/ 2 ^ 52) (into_f64 q) ->
  exists v, real_fn Fo Fsinh (RSimple q) = Ok v /\
            within_budget (real_val (exv v)) (true_fn Fsinh (Q2R q))) /\
  (* C15_accuracy_cosh *)
  (forall Fo q,
  Rabs (Q2R q) <= 1000 -> ordinary_operands q ->
  libm_rel (Fo Fcosh) cosh (/ 2 ^ 52) (into_f64 q) ->
  exists v, real_fn Fo Fcosh (RSimple q) = Ok v /\
            within_budget (real_val (exv v)) (true_fn Fcosh (Q2R q))).
Proof. exact (conj accuracy_sin_ordinary (conj accuracy_cos_ordinary (conj accuracy_atan_ordinary (conj accuracy_tanh_ordinary (conj accuracy_asinh_ordinary (conj accuracy_sinh_ordinary accuracy_cosh_ordinary)))))). Qed.
Print Assumptions C15_accuracy_libm_only.

(* clause C15_accuracy_cos: see the conjunction C15_accuracy_libm_only *)

(* clause C15_accuracy_atan: see the conjunction C15_accuracy_libm_only *)

(* clause C15_accuracy_tanh: see the conjunction C15_accuracy_libm_only *)

(* clause C15_accuracy_asinh: see the conjunction C15_accuracy_libm_only *)

(* clause C15_accuracy_sinh: see the conjunction C15_accuracy_libm_only *)

(* clause C15_accuracy_cosh: see the conjunction C15_accuracy_libm_only *)

(* ------------------------------------------------------------- (19d) *)
(* log2 / ln / log10 do not use into_f64: BigRat::log2 is
   num.log2 - den.log2 with BigUint::log2 n = (bits-1) + libm_log2(2n / 2^bits).
   For a positive argument whose stored numerator and denominator are below
   2^1022 (any magnitude of the quotient), with libm's log2 within 2^-52 at the
   two consulted points (and its answer 0 or at least 2^-900 in magnitude):
   BigUint::log2 is within 2^-41 of the real log2, the difference and from_f64
   within 2^-39, and the division by from_f64(LOG2_E) / from_f64(LOG2_10) keeps
   ln and log10 within 1e-9. *)
(* BigUint::log2, log2, ln, log10: one conjunction *)
Theorem C15_accuracy_logs :
  (* C15_biguint_log2_accurate *)
  (forall F n, (0 < n < 2 ^ 1022)%N ->
  libm_log2_ok F (log2_query_fl n) ->
  zero_or_good (biguint_log2 F n) /\
  Rabs (flv (biguint_log2 F n) - log2 (RN n)) <= / 2 ^ 41) /\
  (* C15_accuracy_log2 *)
  (forall Fo q, log_operands q -> libm_log2_at Fo q ->
  exists v, real_fn Fo Flog2 (RSimple q) = Ok v /\
            within_budget (real_val (exv v)) (true_fn Flog2 (Q2R q))) /\
  (* C15_accuracy_ln *)
  (forall Fo q, log_operands q -> libm_log2_at Fo q ->
  exists v, real_fn Fo Fln (RSimple q) = Ok v /\
            within_budget (real_val (exv v)) (true_fn Fln (Q2R q))) /\
  (* C15_accuracy_log10 *)
  (forall Fo q, log_operands q -> libm_log2_at Fo q ->
  exists v, real_fn Fo Flog10 (RSimple q) = Ok v /\
            within_budget (real_val (exv v)) (true_fn Flog10 (Q2R q))).
Proof. exact (conj biguint_log2_spec (conj accuracy_log2 (conj accuracy_ln accuracy_log10))). Qed.
Print Assumptions C15_accuracy_logs.

(* clause C15_accuracy_log2: see the conjunction C15_accuracy_logs *)

(* clause C15_accuracy_ln: see the conjunction C15_accuracy_logs *)

(* clause C15_accuracy_log10: see the conjunction C15_accuracy_logs *)

(* --------------------------------------------------------------- (20) *)
(* error budget of the bridge around the oracle, for ANY function fR with
   Lipschitz constant L: 2^-64 (from_f64) + eps_libm + L * delta * |q| *)
Theorem C15_bridge_budget : forall (F : oracle) (fR : R -> R) (L eps_libm delta : R),
  0 <= L -> (forall a b, Rabs (fR a - fR b) <= L * Rabs (a - b)) ->
  forall q, into_ok delta q -> libm_ok F fR eps_libm (into_f64 q) ->
  exists v, bridge F q = Ok v /\
    Rabs (Q2R v - fR (Q2R q)) <= / 2 ^ 64 + eps_libm + L * delta * Rabs (Q2R q).
Proof. exact bridge_budget. Qed.
Print Assumptions C15_bridge_budget.

(* --------------------------------------------------------- (21)-(24) *)
(* REFUTED (still: class ill_conditioned_argument is open).  (21) acos (1 - 10^-17): the argument is rounded to 1.0, every
   libm with acos(1.0) = +0.0 yields 0, the true value is 4.47e-9 > 1e-9. *)
Theorem C15_accuracy_refuted : forall Fo,
  Fo Facos bits_one = 0%N -> ~ C15_accuracy_statement Fo.
Proof. exact accuracy_refuted_lemma. Qed.
Print Assumptions C15_accuracy_refuted.

(* (22), (23): documentation of the repaired bridge.  With from_f64_old,
   sinh 46 was exactly 2^64 whatever value >= 2^64 (or +inf) libm answered
   (true value 4.7e19), and atan((10^400+1)/10^400) was 0 (true value pi/4). *)
(* the two old-bridge refutations: one conjunction *)
Theorem C15_old_bridge_refuted :
  (* C15_saturation_old_refuted *)
  (forall y,
  (y = FInf false \/ exists m e, y = FFin false m e /\ fl_saturates y = true) ->
  Q2R (from_f64_old y) = 2 ^ 64 /\ ~ within_budget (Q2R (from_f64_old y)) (sinh 46)) /\
  (* C15_nan_old_refuted *)
  (Q2R (from_f64_old FNaN) = 0 /\ ~ within_budget 0 (atan (Q2R q_big_near_one))).
Proof. exact (conj saturation_old_refuted_lemma nan_old_refuted_lemma). Qed.
Print Assumptions C15_old_bridge_refuted.

(* clause C15_nan_old_refuted: see the conjunction C15_old_bridge_refuted *)

(* ------------------------------------------------------------------ *)
(* non-vacuity of the hypotheses *)

Example C15_sin_special_inhabited :
  ((14 # 12) == 7 # 6)%Q /\ good_residue (Z.abs_N 7) = true.
Proof. split; reflexivity. Qed.

Example C15_sin_special_inhabited_big :       (* 2^70 pi, beyond the old cut-off *)
  ((2 ^ 70 # 1) == 6 * 2 ^ 70 # 6)%Q /\ good_residue (Z.abs_N (6 * 2 ^ 70)) = true.
Proof. split; reflexivity. Qed.

Example C15_cos_special_inhabited : good_residue (Z.abs_N (-2 + 3)) = true.
Proof. reflexivity. Qed.

Example C15_pow_zero_inhabited : real_is_zero (RPi 1) = false /\ real_is_zero (RSimple (2 # 7)) = false.
Proof. split; reflexivity. Qed.

Example C15_root_bisection_inhabited :      (* sqrt 2 from the floor 1 *)
  (Qpower 1 (Z.of_N 2) <= 2)%Q /\ (2 <= Qpower (1 + 1) (Z.of_N 2))%Q.
Proof. split; discriminate. Qed.

Example C15_ordinary_operands_inhabited :       (* a 3-limb numerator *)
  (Z.abs (Qnum (Qred (10 ^ 50 + 1 # 10 ^ 49))) < 2 ^ 1023)%Z /\
  (Z.pos (Qden (Qred (10 ^ 50 + 1 # 10 ^ 49))) < 2 ^ 1023)%Z.
Proof. split; vm_compute; reflexivity. Qed.

Example C15_log_operands_inhabited : log_operands (25 # 2)%Q.
Proof. repeat split; reflexivity. Qed.

Example C15_small_operands_inhabited : small_operands (-355 # 113)%Q.
Proof. split; reflexivity. Qed.

Example C15_round_pos_inhabited : (-1022 <= sel_e 1 3 + 0 <= 1022)%Z.     (* 1/3 *)
Proof. split; discriminate. Qed.

Example C15_from_f64_old_error_inhabited :
  fl_saturates (FFin true 6004799503160661 (-54)) = false.      (* -1/3 *)
Proof. reflexivity. Qed.

Example C15_from_f64_exact_above_inhabited :
  fl_saturates (FFin false 4503599627370496 13) = true.          (* 2^65 *)
Proof. reflexivity. Qed.

(* the two hypotheses of C15_accuracy_partial are satisfiable: q = 1/2 is
   converted exactly, and an oracle answering sin(1/2) rounded to nearest
   (0x3FDEAEE8744B05F0) meets the libm bound *)
Example C15_accuracy_partial_inhabited :
  into_ok (/ 2 ^ 50) (1 # 2)%Q /\
  libm_ok (fun _ => 4602308182625945072%N) sin (/ 2 ^ 52) (into_f64 (1 # 2)%Q).
Proof. exact accuracy_partial_hyps_inhabited. Qed.
