(* C17 — Dice expressions denote the exact probability distribution.
   Property theorems only; each closed by [exact].

   Vocabulary (coq/Dist/Dice.v): a [dist] is the list of (outcome,
   probability) pairs in fend's stored order; [eval e] is the model of what
   fend computes for a dice expression e (dice literals, integer constants,
   unary minus, + - * /); [denote e] is the specification: the naive list of
   ALL combinations of faces of all dice in e, each with the product of the
   individual probabilities (independence), without any merging;
   [mass g D] = sum of g(k) * p over the pairs of D, [total] = mass 1,
   [prob D k] = mass [. == k], [expect] = mass id; [tuples n m] enumerates the
   n-tuples over 1..m and [count_tuples n m k] counts those summing to k.    *)
From Coq Require Import QArith Qround Qabs SetoidList Permutation Sorted.
From FendV Require Import Base.Prelude Dist.Dice Dist.DiceProofs Dist.DiceDie Dist.DiceEval
  Dist.DiceSample Dist.DiceTheorems.
Open Scope Q_scope.

(* ---- the combinatorial specification is what it claims to be ---- *)

Theorem C17_tuples_complete : forall n m t,
  In t (tuples n m) <-> List.length t = n /\ Forall (fun j => (1 <= j <= Z.of_nat m)%Z) t.
Proof. exact tuples_in. Qed.
Print Assumptions C17_tuples_complete.

Theorem C17_tuples_once : forall n m, NoDup (tuples n m).
Proof. exact tuples_nodup. Qed.
Print Assumptions C17_tuples_once.

(* ---- NdM ---- *)

(* new_die never fails for N, M >= 1, and the probability it assigns to k is
   (number of N-tuples over 1..M with sum k) / M^N *)
Theorem C17_die_spec : forall c f, exists D, new_die (Npos c) (Npos f) = Ok D /\
  forall k, prob D (inject_Z k) ==
            inject_Z (Z.of_nat (count_tuples (Pos.to_nat c) (Pos.to_nat f) k)) / inject_Z (Z.pos f ^ Z.pos c).
Proof. exact die_spec_lemma. Qed.
Print Assumptions C17_die_spec.

(* the listed outcomes are exactly the sums of tuples *)
Theorem C17_die_support : forall c f D, new_die (Npos c) (Npos f) = Ok D ->
  forall k, InA Qeq k (keys D) <->
            exists t, In t (tuples (Pos.to_nat c) (Pos.to_nat f)) /\ inject_Z (zsum t) == k.
Proof. exact die_support_lemma. Qed.
Print Assumptions C17_die_support.

Theorem C17_die_invariants : forall c f D, new_die (Npos c) (Npos f) = Ok D ->
  total D == 1 /\ NoDupA Qeq (keys D) /\ Forall (fun kp => 0 < snd kp) D.
Proof. exact die_invariants_lemma. Qed.
Print Assumptions C17_die_invariants.

Theorem C17_mean_die : forall c f D, new_die (Npos c) (Npos f) = Ok D ->
  expect D == inject_Z (Z.pos c) * (inject_Z (Z.pos f) + 1) / 2.
Proof. exact die_mean_lemma. Qed.
Print Assumptions C17_mean_die.

(* ---- one binary operation (Dist::bop with any closure f computing fv) ---- *)

(* merged outcomes are distinct, the probability of k is the sum over all
   pairs (a, b) with fv a b == k of P_A(a) * P_B(b), total mass multiplies,
   and bop succeeds only if the closure succeeds on every pair *)
Theorem C17_bop_spec : forall f fv da db r,
  (forall a b v, f a b = Ok v -> v == fv a b) -> bop f da db = Ok r ->
  NoDupA Qeq (keys r) /\
  (forall k, prob r k == prob (conv fv da db) k) /\
  total r == total da * total db /\
  (forall a b, In a da -> In b db -> exists v, f (fst a) (fst b) = Ok v).
Proof. exact bop_spec_lemma. Qed.
Print Assumptions C17_bop_spec.

(* ---- all arithmetic combinations, by induction on the expression ---- *)

Theorem C17_probs_sum_one : forall e D, eval e = Ok D -> total D == 1.
Proof. exact eval_total_lemma. Qed.
Print Assumptions C17_probs_sum_one.

Theorem C17_outcomes_distinct : forall e D, eval e = Ok D -> NoDupA Qeq (keys D).
Proof. exact eval_distinct_lemma. Qed.
Print Assumptions C17_outcomes_distinct.

Theorem C17_probs_positive : forall e D, eval e = Ok D -> Forall (fun kp => 0 < snd kp) D.
Proof. exact eval_positive_lemma. Qed.
Print Assumptions C17_probs_positive.

(* the probability of every k is the one of the independent-rolls denotation *)
Theorem C17_eval_denotes : forall e D, eval e = Ok D -> forall k, prob D k == prob (denote e) k.
Proof. exact eval_denotes_lemma. Qed.
Print Assumptions C17_eval_denotes.

(* in particular the probability stored next to a listed outcome *)
Theorem C17_listed_probability : forall e D, eval e = Ok D ->
  forall k p, In (k, p) D -> p == prob (denote e) k.
Proof. exact eval_prob_listed_lemma. Qed.
Print Assumptions C17_listed_probability.

(* the listed outcomes are exactly the possible ones *)
Theorem C17_support_exact : forall e D, eval e = Ok D ->
  forall k, (InA Qeq k (keys D) <-> InA Qeq k (keys (denote e))) /\
            (InA Qeq k (keys D) <-> 0 < prob (denote e) k).
Proof. exact eval_support_lemma. Qed.
Print Assumptions C17_support_exact.

(* the model never reaches new_die's assertions *)
Theorem C17_no_panic : forall e s, eval e <> Panic s.
Proof. exact eval_no_panic. Qed.
Print Assumptions C17_no_panic.

(* ---- mean ---- *)

Theorem C17_mean_spec : forall e D, eval e = Ok D ->
  exists v p, mean D = Ok [(v, p)] /\ v == expect (denote e).
Proof. exact mean_lemma. Qed.
Print Assumptions C17_mean_spec.

(* ---- listing order of format ---- *)

Theorem C17_sorted_listing : forall e D, eval e = Ok D ->
  StronglySorted (fun x y => fst x < fst y) (listing D) /\ Permutation (listing D) D.
Proof. exact listing_lemma. Qed.
Print Assumptions C17_sorted_listing.

(* the two-decimal percentage is within half a unit in the last place *)
Theorem C17_pct_rounding : forall p,
  inject_Z (pct_hundredths p) - (1 # 2) <= p * (10000 # 1) /\
  p * (10000 # 1) < inject_Z (pct_hundredths p) + (1 # 2).
Proof. exact pct_close. Qed.
Print Assumptions C17_pct_rounding.

(* ---- sample: for every value of the random source and any weights ---- *)

Theorem C17_sample_member : forall D ws r, D <> [] -> List.length ws = List.length D ->
  exists k p, sample D ws r = Ok [(k, p)] /\ In k (keys D).
Proof. exact sample_member. Qed.
Print Assumptions C17_sample_member.

Theorem C17_sample_covers : forall D ws i,
  (2 <= List.length D)%nat -> List.length ws = List.length D -> (i < List.length D)%nat ->
  (1 <= nth i ws 0)%N -> (sumN (firstn i ws) < rand_max)%N ->
  exists r, (r <= rand_max)%N /\ sample D ws r = Ok (one_point (fst (nth i D (0, 0)))).
Proof. exact sample_covers. Qed.
Print Assumptions C17_sample_covers.

Theorem C17_sample_zero_first : forall D ws,
  (2 <= List.length D)%nat -> ws <> [] ->
  sample D ws 0%N = Ok (one_point (fst (nth 0 D (0, 0)))).
Proof. exact sample_zero_first. Qed.
Print Assumptions C17_sample_zero_first.

(* under the weight oracle (each weight within 1 of p * (2^32 - 1)), every
   outcome whose probability exceeds (position + 1) / (2^32 - 1) is produced
   by some value of the random source *)
Theorem C17_sample_covers_nonnegligible : forall D ws i,
  (2 <= List.length D)%nat -> Forall (fun kp => 0 < snd kp) D -> total D == 1 ->
  Forall2 (fun kp w => Qabs (inject_Z (Z.of_N w) - snd kp * inject_Z (Z.of_N rand_max)) <= 1) D ws ->
  (i < List.length D)%nat ->
  inject_Z (Z.of_nat i) + 1 < snd (nth i D (0, 0)) * inject_Z (Z.of_N rand_max) ->
  exists r, (r <= rand_max)%N /\ sample D ws r = Ok (one_point (fst (nth i D (0, 0)))).
Proof. exact sample_covers_nonnegligible. Qed.
Print Assumptions C17_sample_covers_nonnegligible.

(* ---- non-vacuity ---- *)

Definition ex_expr : expr := ESub (EMul (EDie 2 6) (EConst 3)) (EDiv (EDie 1 4) (ENeg (EDie 1 2))).

Example C17_eval_inhabited : exists D, eval ex_expr = Ok D /\ (List.length D = 56)%nat.
Proof. eexists. split; [vm_compute; reflexivity | reflexivity]. Qed.

Example C17_error_inhabited :
  eval (EDiv (EDie 1 6) (ESub (EDie 1 6) (EConst 3))) = Err EDivByZero /\ eval (EDie 0 6) = Err EParse.
Proof. split; vm_compute; reflexivity. Qed.

Definition ex_d6 : dist := one_die 6.
Definition ex_ws : list N := map (fun kp => Z.to_N (Qfloor (snd kp * inject_Z (Z.of_N rand_max)))) ex_d6.

(* the weight oracle is satisfiable (exact floors), and the hypotheses of
   both coverage theorems hold for the last face of a d6 *)
Example C17_oracle_inhabited :
  Forall2 (fun kp w => Qabs (inject_Z (Z.of_N w) - snd kp * inject_Z (Z.of_N rand_max)) <= 1) ex_d6 ex_ws.
Proof. exact (floor_weights_close ex_d6 (one_die_positive 6)). Qed.

Example C17_covers_inhabited :
  (2 <= List.length ex_d6)%nat /\ List.length ex_ws = List.length ex_d6 /\ (5 < List.length ex_d6)%nat /\
  (1 <= nth 5 ex_ws 0)%N /\ (sumN (firstn 5 ex_ws) < rand_max)%N /\
  inject_Z (Z.of_nat 5) + 1 < snd (nth 5 ex_d6 (0, 0)) * inject_Z (Z.of_N rand_max) /\
  total ex_d6 == 1.
Proof. vm_compute. repeat split; try discriminate; try reflexivity; auto. Qed.
