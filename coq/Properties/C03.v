(* C03 -- The approx. marker and digit truncation never misstate a value.
   Property theorems only; each closed by [exact].
   Models: Fmt/Format.v (printers, digit cut-off, sf mask), Fmt/Root.v
   (integer root bisection, rational root and rational power),
   Fmt/Flag.v (the exact flag through Value add/sub/mul/div/neg). *)
From FendV Require Import Base.Prelude Fmt.Rat Fmt.Format Fmt.Lex Fmt.IntFmtProofs Fmt.LexProofs
  Fmt.ExpansionProofs Fmt.RoundTripProofs Fmt.TruncProofs Fmt.SfProofs Fmt.Root Fmt.RootProofs Fmt.Flag Fmt.FlagProofs Fmt.RealFlag Fmt.RealFlagProofs Fmt.Complex Fmt.ComplexProofs.
From Coq Require Import QArith.
Open Scope N_scope.

(* THE MARKER.  Whatever Value::format shows without `approx.` -- every
   style incl. n dp / n sf / auto, every base 2..36, both separator styles,
   exact or inexact input flag, any fuel -- reads back (lexer model) to
   exactly the formatted value; and the input value was flagged exact. *)
Theorem C03_marker : forall fuel vexact st base sep x s,
  base_prefix_ok base = true -> wfr x = true ->
  fmt_value fuel vexact st base sep x = Ok (s, true) ->
  vexact = true /\ exists v, read_rendering sep base s = Some v /\ (v == qval x)%Q.
Proof. exact fmt_value_marker. Qed.
Print Assumptions C03_marker.

(* COMPLEX VALUES (both parts shown, imaginary suffix, any style / base):
   the term-aware formatter with an empty term IS the verified formatter ... *)
Theorem C03_format_term_nil : forall fuel st base sep x,
  bigrat_format_t [] fuel st base sep x = bigrat_format fuel st base sep x.
Proof. exact bigrat_format_t_nil. Qed.
Print Assumptions C03_format_term_nil.

(* ... and a rendering  re + im i  shown without `approx.` means: the value was
   flagged exact, neither part is an approximated multiple of pi, and the
   plain renderings of BOTH parts are flagged exact and denote the parts
   exactly (so a part that dropped digits marks the whole) *)
Theorem C03_complex_marker : forall fuel vexact st base sep re re_ov im im_ov s,
  base_prefix_ok base = true -> wfr re = true -> wfr im = true ->
  (forall b, vexact = b -> st <> SSf 0) ->
  complex_format fuel vexact st base sep re re_ov im im_ov = Ok (s, true) ->
  vexact = true /\
  (rat_is_zero re = false \/ rat_is_zero im = true ->
     re_ov = false /\ exists st' t v, bigrat_format fuel st' base sep re = Ok (t, true) /\
                       read_rendering sep base t = Some v /\ (v == qval re)%Q) /\
  (rat_is_zero im = false ->
     im_ov = false /\ exists st' t v x', (x' = im \/ x' = rat_neg im) /\
                       bigrat_format fuel st' base sep x' = Ok (t, true) /\
                       read_rendering sep base t = Some v /\ (v == qval x')%Q).
Proof. exact complex_marker_lemma. Qed.
Print Assumptions C03_complex_marker.

(* n decimal places: the text denotes floor(|x| b^n) / b^n with x's sign
   (within one unit of the last place), and is flagged exact exactly when no
   digit was dropped. *)
Theorem C03_dp_truncation : forall fuel n base sep x s ex,
  base_prefix_ok base = true -> wfr x = true ->
  bigrat_format fuel (SDp n) base sep x = Ok (s, ex) ->
  let Bn := base_val base ^ n in
  let T := (rnum x * Bn) / rden x in
  exists v, read_rendering sep base s = Some v /\
            (v == signedQ (rneg x) (qN T / qN Bn))%Q /\
            (ex = true <-> T * rden x = rnum x * Bn).
Proof. exact dp_truncation_lemma. Qed.
Print Assumptions C03_dp_truncation.

(* ... and that rendering is total: no panic, no fuel exhaustion, whatever
   fuel is passed (it is only consumed by the recurring-digit search) *)
Theorem C03_dp_total : forall fuel n base sep x,
  base_prefix_ok base = true -> wfr x = true ->
  exists s ex, bigrat_format fuel (SDp n) base sep x = Ok (s, ex).
Proof. exact dp_total_lemma. Qed.
Print Assumptions C03_dp_total.

(* n significant figures of an integer: the digits after the first n are
   shown as zeros (the number truncated to a multiple of b^(len-n)), flagged
   exact exactly when that changes nothing. *)
Theorem C03_sf_int_truncation : forall base sep neg sf n s ex, base_prefix_ok base = true ->
  format_as_integer n base neg (Some sf) = Ok (s, ex) ->
  exists ds v, canon_ds (base_val base) n ds /\
    read_rendering sep base s = Some v /\
    let k := N.of_nat (length ds - N.to_nat sf) in
    (v == signedQ neg (qN (n / base_val base ^ k * base_val base ^ k)))%Q /\
    (ex = true <-> n / base_val base ^ k * base_val base ^ k = n).
Proof. exact sf_int_truncation_lemma. Qed.
Print Assumptions C03_sf_int_truncation.

(* n significant figures of a NON-integer rational in lowest terms: the text
   is the value truncated at the n-th significant digit, flagged exact exactly
   when nothing was dropped.  Three regimes, as in the code:
   - integer part of L digits, L <= n: truncation at n - L decimal places;
   - L > n: the integer part with its last L - n digits zeroed, never exact;
   - no integer part: z leading zeros after the point are not counted
     (b^-(z+1) <= |x| < b^-z) and max(n,1) digits follow them. *)
Theorem C03_sf_truncation : forall fuel sf base sep x s ex,
  base_prefix_ok base = true -> wfr x = true -> reduced x = true -> rden x <> 1 ->
  bigrat_format fuel (SSf sf) base sep x = Ok (s, ex) ->
  let b := base_val base in
  let ip := rnum x / rden x in
  exists v, read_rendering sep base s = Some v /\
    ((ip <> 0 /\ exists ds, canon_ds b ip ds /\
        ((N.of_nat (length ds) <= sf /\
          let Bn := b ^ (sf - N.of_nat (length ds)) in
          let T := rnum x * Bn / rden x in
          (v == signedQ (Rat.rneg x) (qN T / qN Bn))%Q /\ (ex = true <-> T * rden x = rnum x * Bn))
         \/
         (sf < N.of_nat (length ds) /\
          let k := N.of_nat (length ds) - sf in
          (v == signedQ (Rat.rneg x) (qN (ip / b ^ k * b ^ k)))%Q /\ ex = false)))
     \/
     (ip = 0 /\ exists z : nat,
        rnum x * b ^ N.of_nat z < rden x /\ rden x <= rnum x * b ^ N.of_nat (z + 1) /\
        let Bn := b ^ (N.of_nat z + N.max sf 1) in
        let T := rnum x * Bn / rden x in
        (v == signedQ (Rat.rneg x) (qN T / qN Bn))%Q /\ (ex = true <-> T * rden x = rnum x * Bn))).
Proof. exact sf_truncation_lemma. Qed.
Print Assumptions C03_sf_truncation.

(* integer n-th root by bisection: floor root, exact flag iff perfect power;
   total for 0 < n < 2^64; the only panic is the division by zero for n = 0 *)
Theorem C03_iroot_spec : forall x n r ex,
  iroot x n = Ok (r, ex) -> n <> 0 ->
  r ^ n <= x < (r + 1) ^ n /\ (ex = true <-> r ^ n = x).
Proof. exact iroot_spec. Qed.
Print Assumptions C03_iroot_spec.

Theorem C03_iroot_total : forall x n, 0 < n < 2 ^ 64 -> exists r ex, iroot x n = Ok (r, ex).
Proof. exact iroot_total. Qed.
Print Assumptions C03_iroot_total.

Theorem C03_iroot_panics_iff : forall x n,
  (exists k, iroot x n = Panic k) <-> (n = 0 /\ 2 <= x).
Proof. exact iroot_panics_iff. Qed.
Print Assumptions C03_iroot_panics_iff.

(* rational root: flagged exact iff a rational root exists, and then the
   result is that root *)
Theorem C03_rat_root_exact_iff : forall x n q ex,
  wfr x = true -> reduced x = true -> rneg x = false -> 0 < n < 2 ^ 64 ->
  rat_root x (rat_of_N n) = Ok (q, ex) ->
  (ex = true <-> exists y : Q, (0 <= y /\ y ^ Z.of_N n == qval x)%Q) /\
  (ex = true -> (0 <= q /\ q ^ Z.of_N n == qval x)%Q).
Proof. exact rat_root_exact_iff. Qed.
Print Assumptions C03_rat_root_exact_iff.

(* inexact root: result and true root lie in an interval of relative width
   2^-48 < 1e-12 (no real numbers needed) *)
Theorem C03_rat_root_bracket : forall x n q,
  wfr x = true -> rneg x = false -> rnum x <> 0 -> 2 <= n < 2 ^ 64 ->
  rat_root x (rat_of_N n) = Ok (q, false) ->
  exists lo hi : Q,
    (0 < lo /\ (lo <= q /\ q <= hi) /\
     (lo ^ Z.of_N n <= qval x /\ qval x <= hi ^ Z.of_N n) /\
     hi <= lo * (1 + 1 / 2 ^ 48))%Q.
Proof. exact rat_root_bracket. Qed.
Print Assumptions C03_rat_root_bracket.

Theorem C03_root_error_bound : (1 / 2 ^ 48 < 1 / 10 ^ 12)%Q.
Proof. exact two_pow_48_small. Qed.
Print Assumptions C03_root_error_bound.

(* rational power x^(p/q): exact iff x^p has a rational q-th root *)
Theorem C03_rat_pow_exact_iff : forall x e r ex,
  wfr x = true -> reduced x = true -> rneg x = false ->
  reduced e = true -> rneg e = false ->
  0 < rnum e < 2 ^ 64 -> 0 < rden e < 2 ^ 64 ->
  rat_pow x e = Ok (r, ex) ->
  (ex = true <-> exists y : Q, (0 <= y /\ y ^ Z.of_N (rden e) == qval x ^ Z.of_N (rnum e))%Q) /\
  (ex = true -> (0 <= r /\ r ^ Z.of_N (rden e) == qval x ^ Z.of_N (rnum e))%Q).
Proof. exact rat_pow_exact_iff. Qed.
Print Assumptions C03_rat_pow_exact_iff.

Theorem C03_rat_pow_no_panic : forall x e k, wfr e = true -> rat_pow x e <> Panic k.
Proof. exact rat_pow_no_panic. Qed.
Print Assumptions C03_rat_pow_no_panic.

(* FLAG MONOTONICITY (full strength, on the model of Value::add as repaired by
   fend commit 198ba44): any value computed from an approximate value stays
   marked -- in fact the flag is EXACTLY "no approximate operand occurs", and
   the value is the exact value of the expression. *)
Theorem C03_flag_monotone : forall e v fl,
  uses_approx e = true -> feval e = Ok (v, fl) -> fl = false.
Proof. exact flag_monotone_lemma. Qed.
Print Assumptions C03_flag_monotone.

Theorem C03_flag_exactly : forall e v fl,
  feval e = Ok (v, fl) -> fl = negb (uses_approx e).
Proof. exact flag_exactly_lemma. Qed.
Print Assumptions C03_flag_exactly.

(* and the marker is never raised without cause *)
Theorem C03_flag_exact_without_approx : forall e v fl,
  uses_approx e = false -> feval e = Ok (v, fl) -> fl = true.
Proof. exact flag_exact_when_no_approx_lemma. Qed.
Print Assumptions C03_flag_exact_without_approx.

Theorem C03_flag_value : forall e v fl,
  feval e = Ok (v, fl) -> exists w, fvalue e = Some w /\ (v == w)%Q.
Proof. exact flag_value_lemma. Qed.
Print Assumptions C03_flag_value.

(* THE REAL LAYER (rationals and symbolic multiples of pi, Exact<Real>
   add/sub/mul/div/neg/pow, floor/ceil/round, under the Value flags; [piq] is
   whatever rational Real::approximate uses for pi).  FULL STRENGTH on today's
   code (floor/ceil/round as repaired by fend 05b3863): a result flagged exact
   IS the symbolic value of the expression in Q + Q.pi. *)
Theorem C03_real_flag_sound : forall piq e p,
  rfeval piq e = Ok (p, true) -> exists s, sval e = Some s /\ sv_eq (sym p) s.
Proof. exact real_flag_sound_lemma. Qed.
Print Assumptions C03_real_flag_sound.

(* anything built from an `approx.` operand stays marked at this layer too *)
Theorem C03_real_flag_monotone : forall piq old e p fl,
  r_uses_approx e = true -> rfeval_gen piq old e = Ok (p, fl) -> fl = false.
Proof. exact real_flag_monotone_lemma. Qed.
Print Assumptions C03_real_flag_monotone.

(* Documentation of the defect found by this development and repaired by
   05b3863: before it, floor / ceil / round of a non-zero multiple of pi were
   computed from the rational stand-in for pi and flagged exact
   (`floor(pi 10^25)` printed 31415926535897932384626408 unmarked, the true
   value ends ...433).  On that model ([rfeval_old]) the statement is refuted
   and holds outside the classifier. *)
Theorem C03_real_flag_sound_old_refuted : forall piq,
  exists e p, rfeval_old piq e = Ok (p, true) /\ sval e = None.
Proof. exact real_flag_sound_old_refuted_lemma. Qed.
Print Assumptions C03_real_flag_sound_old_refuted.

Theorem C03_real_flag_sound_old_except_known : forall piq e p,
  known_C03_intfn_of_pi piq e = false -> rfeval_old piq e = Ok (p, true) ->
  exists s, sval e = Some s /\ sv_eq (sym p) s.
Proof. exact real_flag_sound_old_except_known_lemma. Qed.
Print Assumptions C03_real_flag_sound_old_except_known.

(* Documentation of the defect that was found and repaired: before 198ba44
   Value::add returned self whenever rhs.is_zero(), without consulting
   rhs.exact ([feval_old]); on that model the statement is refuted
   (`1 + approx. 0`, `1 + (sqrt 2 - sqrt 2)` printed `1` without marker) and
   holds outside the classifier. *)
Theorem C03_flag_monotone_old_refuted :
  exists e v, uses_approx e = true /\ feval_old e = Ok (v, true).
Proof. exact flag_monotone_old_refuted_lemma. Qed.
Print Assumptions C03_flag_monotone_old_refuted.

Theorem C03_flag_monotone_old_except_known : forall e v fl,
  known_C03_add_approx_zero e = false -> uses_approx e = true ->
  feval_old e = Ok (v, fl) -> fl = false.
Proof. exact flag_monotone_old_except_known_lemma. Qed.
Print Assumptions C03_flag_monotone_old_except_known.

(* non-vacuity *)
Example C03_dp_inhabited :
  bigrat_format 10 (SDp 3) (BPlain 10) SepDot (mkrat true 22 7) = Ok ([45; 51; 46; 49; 52; 50], false)
  /\ bigrat_format 10 (SDp 3) (BPlain 10) SepDot (mkrat false 1 8) = Ok ([48; 46; 49; 50; 53], true)
  /\ bigrat_format 10 (SSf 2) (BPlain 10) SepDot (mkrat false 1234 1) = Ok ([49; 50; 48; 48], false)
  /\ bigrat_format 10 (SSf 2) (BPlain 10) SepDot (mkrat false 1 300) = Ok ([48; 46; 48; 48; 51; 51], false)
  /\ reduced (mkrat false 1 300) = true.
Proof. repeat split; vm_compute; reflexivity. Qed.

Example C03_complex_inhabited :
  complex_format 10 true (SDp 5) (BPlain 10) SepDot (mkrat false 1 2) false (mkrat false 1 3) false
  = Ok ([48; 46; 53; 32; 43; 32; 48; 46; 51; 51; 51; 51; 51; 105], false)      (* 0.5 + 0.33333i, marked *)
  /\ complex_format 10 true (SDp 5) (BPlain 10) SepDot (mkrat false 1 2) false (mkrat true 1 4) false
  = Ok ([48; 46; 53; 32; 45; 32; 48; 46; 50; 53; 105], true).                   (* 0.5 - 0.25i *)
Proof. split; vm_compute; reflexivity. Qed.

Example C03_real_layer_inhabited :
  rfeval (22 # 7) (RDiv (RMul (RLit 2) RPiC) (RMul (RLit 3) RPiC)) = Ok (RSimple (2 * 1 / (3 * 1)), true)
  /\ rfeval (22 # 7) (RDiv (RLit 1) RPiC) = Ok (RSimple (1 / (1 * (22 # 7))), false)
  /\ rfeval (22 # 7) (RMul RPiC RPiC) = Ok (RPi (1 * (1 * (22 # 7))), false)
  /\ known_C03_intfn_of_pi (22 # 7) (RSub (RDiv (RLit 1) RPiC) (RDiv (RLit 1) RPiC)) = false
  /\ known_C03_intfn_of_pi (22 # 7) (RFloor (RMul (RLit 100) RPiC)) = true
  /\ rfeval (22 # 7) (RFloor (RMul (RLit 100) RPiC)) = Ok (RSimple (inject_Z 314), false)
  /\ rfeval_old (22 # 7) (RFloor (RMul (RLit 100) RPiC)) = Ok (RSimple (inject_Z 314), true).
Proof. repeat split; vm_compute; reflexivity. Qed.

Example C03_known_class_inhabited :
  known_C03_add_approx_zero (FAdd (FLit 1) (FApprox (FLit 0))) = true
  /\ known_C03_add_approx_zero (FAdd (FLit 1) (FApprox (FLit 2))) = false
  /\ feval (FAdd (FLit 1) (FApprox (FLit 2))) = Ok (3%Q, false)
  /\ feval (FAdd (FLit 1) (FApprox (FLit 0))) = Ok (1%Q, false)
  /\ feval_old (FAdd (FLit 1) (FApprox (FLit 0))) = Ok (1%Q, true).
Proof. repeat split; vm_compute; reflexivity. Qed.
