(* C08 (extension) -- from TEXT to AST.  C08's theorems (Properties/C08.v)
   start at token streams; these extend the chain through the lexer model
   (Lex/Lexer.v) for the printed class: lexing the printed text of a token
   list gives the token list back.  Property theorems only; each closed by
   [exact].

   An item is (token, spelling, number of spaces in front).  Side conditions,
   all boolean and executable (Lex/Print.v), evaluated by the check with the
   extracted code on every generated text:
     items_ok  every token is spelled by its text (punctuation spellings incl.
               ** x* - unicode signs, <> != and the keyword operators mod per
               and AND or OR xor XOR nCr choose nPr permute to as in of; any
               identifier text that parse_ident reads as one word and that is
               not a keyword; a number text starts like a number), and where
               two texts touch without a space the second does not extend the
               first: after ! no =, after * no *, after = no = or >, after a
               word no character valid in an identifier after its last one
     nums_ok   parse_number, asked on the actual rest of the text, returns the
               token's payload and stops where the number text ends
   for EVERY oracle (alphabetic table, number parser, date parser).
   Proofs: Lex/PrintProofs.v, Lex/Pipeline.v. *)
From FendV Require Import Base.Prelude Lang.Syntax Lang.Parser Lang.Printer
  Lang.ParserBasics Lang.ParserProofs Crash.Utf8 Lex.Lexer Lex.LexerProofs
  Lex.Print Lex.PrintProofs Lex.Pipeline.
Open Scope N_scope.

(* lexing the printed text yields exactly the token list *)
Theorem C08_lex_print :
  forall alpha_hi numparse dateparse comma items,
  items_ok alpha_hi comma items = true -> nums_ok numparse comma items = true ->
  lex alpha_hi numparse dateparse comma (render items) = LOk (map it_tok items).
Proof. exact lex_print. Qed.
Print Assumptions C08_lex_print.

(* one token: which side condition each kind of token needs *)
Theorem C08_lex_print_token :
  forall alpha_hi numparse dateparse comma st t text rest,
  after_backslash st = 0 -> tok_text_ok alpha_hi comma t text = true ->
  match rest with [] => True | x :: _ => abut_ok alpha_hi t text x = true end ->
  match t with TNum p => numparse comma (text ++ rest) = NOk p rest | _ => True end ->
  next_token alpha_hi numparse dateparse st comma (text ++ rest) = LOk (Some t, rest) /\
  t <> TSym Backslash.
Proof. exact next_token_item. Qed.
Print Assumptions C08_lex_print_token.

(* leading spaces are skipped *)
Theorem C08_lex_print_spaces :
  forall alpha_hi numparse dateparse comma st n s,
  next_token alpha_hi numparse dateparse st comma (repeat 32 n ++ s) =
  next_token alpha_hi numparse dateparse st comma s.
Proof. exact next_token_spaces. Qed.
Print Assumptions C08_lex_print_spaces.

(* the spacing rule of gen/c08.py (a space between two word-like tokens and
   between two punctuation tokens, optional otherwise) implies items_ok *)
Theorem C08_lex_c08_spacing_sufficient :
  forall alpha_hi comma items,
  toks_ok alpha_hi comma items = true -> c08_spaced alpha_hi items = true ->
  items_ok alpha_hi comma items = true.
Proof. exact c08_rule_items_ok. Qed.
Print Assumptions C08_lex_c08_spacing_sufficient.

Theorem C08_lex_print_c08_spacing :
  forall alpha_hi numparse dateparse comma items,
  toks_ok alpha_hi comma items = true -> c08_spaced alpha_hi items = true ->
  nums_ok numparse comma items = true ->
  lex alpha_hi numparse dateparse comma (render items) = LOk (map it_tok items).
Proof. exact lex_print_c08. Qed.
Print Assumptions C08_lex_print_c08_spacing.

(* text -> AST: any admissible rendering of the minimal printing of a table
   expression lexes and parses to the AST the table assigns (with and without
   eval.rs's completion of missing open parentheses) *)
Theorem C08_lex_text_to_ast :
  forall alpha_hi numparse dateparse comma e items,
  map it_tok items = print_min e ->
  items_ok alpha_hi comma items = true -> nums_ok numparse comma items = true ->
  parse_text_plain alpha_hi numparse dateparse comma (render items) = Some (POk (ex 0 e) []) /\
  parse_text alpha_hi numparse dateparse comma (render items) =
    Some (POk (parens_n (n_close (print_min e)) (ex 0 e)) []).
Proof. exact text_to_ast. Qed.
Print Assumptions C08_lex_text_to_ast.

(* C08_precedence, starting at text *)
Theorem C08_lex_precedence_text :
  forall alpha_hi numparse dateparse comma (V : Type) (ev : expr -> V),
  (forall a b, strip a = strip b -> ev a = ev b) ->
  forall e imin ifull,
    map it_tok imin = print_min e -> map it_tok ifull = print_full e ->
    items_ok alpha_hi comma imin = true -> nums_ok numparse comma imin = true ->
    items_ok alpha_hi comma ifull = true -> nums_ok numparse comma ifull = true ->
    exists a b,
      parse_text alpha_hi numparse dateparse comma (render imin) = Some (POk a []) /\
      parse_text alpha_hi numparse dateparse comma (render ifull) = Some (POk b []) /\
      strip a = ast e /\ strip b = ast e /\ ev a = ev b.
Proof. exact precedence_text. Qed.
Print Assumptions C08_lex_precedence_text.

(* ---- hypotheses are satisfiable, and needed ---- *)

Example C08_lex_items_inhabited :
  items_ok no_alpha false demo_items = true /\ nums_ok demo_numparse false demo_items = true /\
  c08_spaced no_alpha demo_items = true /\ render demo_items = [50; 42; 120; 32; 43; 49] /\
  items_ok no_alpha false demo_items2 = true /\ nums_ok demo_numparse false demo_items2 = true /\
  render demo_items2 = [55; 32; 109; 111; 100; 32; 121; 42; 42; 50].
Proof. exact demo_items_ok. Qed.

Example C08_lex_side_conditions_needed :
  lex no_alpha demo_numparse no_dates false [33; 61] = LOk [TSym NotEquals] /\
  lex no_alpha demo_numparse no_dates false [33; 32; 61] = LOk [TSym Factorial; TSym Equals] /\
  lex no_alpha demo_numparse no_dates false [120; 49] = LOk [TIdent [120; 49]] /\
  lex no_alpha demo_numparse no_dates false [42; 42] = LOk [TSym Pow] /\
  items_ok no_alpha false [mkitem (TSym Factorial) [33] 0; mkitem (TSym Equals) [61] 0] = false /\
  items_ok no_alpha false [mkitem (TIdent [120]) [120] 0; mkitem (TNum [49]) [49] 0] = false /\
  items_ok no_alpha false [mkitem (TSym Mul) [42] 0; mkitem (TSym Mul) [42] 0] = false.
Proof. exact glue_needed. Qed.
