(* C09 -- Variables and lambdas are referentially transparent and lexically
   scoped.  Model: coq/Eval/Calc.v (ast::evaluate, Scope, Value::apply,
   resolve_identifier, evaluate_to_spans; numbers, built-ins and units are
   parameters).  Property theorems only; each closed by [exact]. *)
From FendV Require Import Base.Prelude Eval.Calc Eval.CalcProofs Eval.CalcZ Eval.Close Eval.CloseProofs Eval.LetProofs.
Open Scope N_scope.

Section C09.
Variable num : Type.
Variable num_un : unop -> num -> option num.
Variable num_bop : bop -> num -> num -> option num.
Variable builtin : ident -> option (ident + num).
Variable builtin_apply : ident -> num -> option num.
Variable unit_of : ident -> option num.
Variable unit_static : ident -> option num.
Variable fmt_polls : value num -> nat.
Variable fmt_ok : value num -> bool.
Notation eval := (Calc.eval num num_un num_bop builtin builtin_apply unit_of unit_static).
Notation eval_top := (Calc.eval_top num num_un num_bop builtin builtin_apply unit_of unit_static fmt_polls fmt_ok).
Notation vapply := (Calc.apply num num_bop builtin_apply).

(* Inner parameters shadow outer ones: a use of x under a binding of x is the
   parenthesised argument of that (innermost) binding, evaluated in the scope
   the argument came from -- whatever outer bindings, context variables,
   built-ins or units of that name exist.  Same result, same polls. *)
Theorem C09_scope_lookup_innermost : forall fire f x (a : expr num) sa inner st,
  eval fire (S f) (EIdent x) (SCons x a sa inner) st = eval fire (S f) (EParens a) sa st.
Proof. exact (lookup_innermost_lemma num num_un num_bop builtin builtin_apply unit_of unit_static). Qed.

Theorem C09_scope_lookup_outer : forall fire f x y (a : expr num) sa inner st,
  ident_eqb x y = false ->
  eval fire (S f) (EIdent x) (SCons y a sa inner) st = eval fire (S f) (EIdent x) inner st.
Proof. exact (lookup_outer_lemma num num_un num_bop builtin builtin_apply unit_of unit_static). Qed.

(* Closures keep the bindings they were created with: a lambda evaluates to a
   closure over the scope it is evaluated in; when it is applied -- from any
   caller scope -- the body runs in that captured scope extended by the
   parameter, and every other name of the body resolves in the captured scope,
   not in the caller's. *)
Theorem C09_closure_creation : forall fire f x (body : expr num) sc st,
  eval fire (S f) (EFn x body) sc st = mbind (tick fire) (fun _ => ret (VFn x body sc)) st.
Proof. exact (closure_creation_lemma num num_un num_bop builtin builtin_apply unit_of unit_static). Qed.

Theorem C09_closure_keeps_bindings : forall (ev : expr num -> scope num -> M num (value num)) p body csc arg m sc,
  vapply ev (VFn p body csc) arg m sc = ev body (SCons p arg sc csc).
Proof. exact (closure_apply_lemma num num_bop builtin_apply). Qed.

Theorem C09_closure_lexical : forall z p (arg : expr num) sc csc,
  ident_eqb z p = false -> scope_find z (SCons p arg sc csc) = scope_find z csc.
Proof. exact (closure_lexical_lemma num). Qed.

(* beta, environment form: applying a lambda is evaluating its body with the
   parameter standing for the parenthesised argument (by the first theorem);
   the application itself costs two polls (three through parentheses). *)
Theorem C09_beta_env : forall fire f x (body a : expr num) sc st,
  eval fire (S (S f)) (EApplyFn (EFn x body) a) sc st
  = mbind (tick fire) (fun _ => mbind (tick fire) (fun _ => eval fire (S f) body (SCons x a sc sc))) st.
Proof. exact (beta_env_lemma num num_un num_bop builtin builtin_apply unit_of unit_static). Qed.

Theorem C09_beta_env_parens : forall fire f x (body a : expr num) sc st,
  eval fire (S (S (S f))) (EApply (EParens (EFn x body)) a) sc st
  = mbind (tick fire) (fun _ => mbind (tick fire) (fun _ => mbind (tick fire) (fun _ =>
      eval fire (S (S f)) body (SCons x a sc sc)))) st.
Proof. exact (beta_env_apply_lemma num num_un num_bop builtin builtin_apply unit_of unit_static). Qed.

(* User variables shadow built-in names and units consistently ... *)
Theorem C09_shadow_builtin : forall fire f x sc st v,
  scope_find x sc = None ->
  get_var x (s_vars st) = Some v ->
  eval fire (S f) (EIdent x) sc st = mbind (tick fire) (fun _ => ret v) st.
Proof. exact (shadow_builtin_lemma num num_un num_bop builtin builtin_apply unit_of unit_static). Qed.

(* ... with one syntactic exception in the evaluator: two adjacent
   identifiers a b mean the unit a_b if there is one, whatever a and b are
   bound to.  (The other exception is lexical: to as in of per mod xor and or
   nCr nPr choose permute never reach the evaluator as identifiers.) *)
Theorem C09_shadow_exception_unit : forall fire f a b sc st u,
  unit_static (underscore_join a b) = Some u ->
  eval fire (S f) (EApply (EIdent a) (EIdent b)) sc st = mbind (tick fire) (fun _ => ret (VNum u)) st.
Proof. exact (apply_ident_ident_unit_lemma num num_un num_bop builtin builtin_apply unit_of unit_static). Qed.

(* Binding a name and then using it: after x = e the name x holds the value e
   had, and (C09_shadow_builtin) a use of x outside any binding of x is that
   value -- one poll, nothing re-evaluated. *)
Theorem C09_assigned_name_is_its_value : forall fire f x e sc st s1 v,
  eval fire f (EAssign x e) sc st = (s1, Good v) -> get_var x (s_vars s1) = Some v.
Proof. exact (assign_then_use_lemma num num_un num_bop builtin builtin_apply unit_of unit_static). Qed.

(* _ and ans hold the most recently computed result ... *)
Theorem C09_ans_on_success : forall fire f e st s v,
  eval_top fire f e st = (s, Good v) ->
  get_var id_underscore (s_vars s) = Some v /\ get_var id_ans (s_vars s) = Some v.
Proof. exact (ans_on_success_lemma num num_un num_bop builtin builtin_apply unit_of unit_static fmt_polls fmt_ok). Qed.

(* ... an evaluation that fails to compute a value leaves them unchanged
   (unless the program itself executed an assignment to that name) ... *)
Theorem C09_ans_unchanged_on_failure : forall fire f e vs s e0 x,
  x = id_underscore \/ x = id_ans ->
  eval fire f e SNil (mkS vs 0 []) = (s, Bad e0) ->
  Forall (fun ev => match ev with LAssign y _ => y <> x | LAns _ => True end) (s_log s) ->
  get_var x (s_vars s) = get_var x vs.
Proof. exact (ans_unchanged_on_failure_lemma num num_un num_bop builtin builtin_apply unit_of unit_static fmt_polls fmt_ok). Qed.

(* ... and the assignments that completed before the failure survive it: the
   variables afterwards are the old ones with exactly the executed
   assignments applied, in order; nothing is rolled back, nothing else is
   written. *)
Theorem C09_completed_assignments_survive_failure : forall fire f e vs s e0,
  eval fire f e SNil (mkS vs 0 []) = (s, Bad e0) ->
  eval_top fire f e (mkS vs 0 []) = (s, Bad e0)
  /\ s_vars s = replay (s_log s) vs /\ Forall (is_assign num) (s_log s).
Proof. exact (top_failure_lemma num num_un num_bop builtin builtin_apply unit_of unit_static fmt_polls fmt_ok). Qed.

(* ---- substitution form (closing a scope into an expression, Eval/Close.v) ----
   Names are split by [isparam] into names used as lambda parameters and all
   other names.  Side conditions, all about names: the evaluator's own
   parameter x (wrap_with_expr) is a parameter name; built-in function names
   are not; no unit is called a_b with a or b a parameter name; every binder
   is a parameter name and parameter names do not occur free at top level
   ([config_ok], [WFst] say this for the expression, its scope and the
   variables of the context). *)
Section Subst.
Variable isparam : ident -> bool.
Variable assignable : ident -> bool.   (* the names the expressions in play may assign to: any, for beta *)
Hypothesis Hx : isparam id_x = true.
Hypothesis Hbuiltin : forall x g, builtin x = Some (inl g) -> isparam g = false.
Hypothesis Hunit : forall a b, isparam a = true \/ isparam b = true -> unit_static (underscore_join a b) = None.

(* Two configurations with the same closed form are evaluated in lockstep:
   same result (closures up to their closed form), same variables, same
   error, same polls -- also under an interrupt. *)
Theorem C09_lockstep : forall fire f (e1 e2 : expr num) s1 s2 st,
  config_ok num isparam assignable e1 s1 -> config_ok num isparam assignable e2 s2 ->
  close s1 e1 = close s2 e2 -> WFst num isparam assignable st ->
  same_outcome num (eval fire f e1 s1 st) (eval fire f e2 s2 st).
Proof. exact (lockstep_same_lemma num num_un num_bop builtin builtin_apply unit_of unit_static isparam assignable Hx Hbuiltin Hunit). Qed.

(* beta: applying a lambda gives the same result as substituting the
   parenthesised argument for the parameter (free occurrences; an inner
   binder of the same name shadows), provided no binder of the body on the
   way to such an occurrence is a name of the argument.  Call-by-name on
   both sides: the argument is re-evaluated at every use.  The application
   itself costs two polls (three through parentheses). *)
Theorem C09_beta : forall f x (b a : expr num) sc st,
  config_ok num isparam assignable (EApplyFn (EFn x b) a) sc -> WFst num isparam assignable st ->
  capture_free x (idents a) b = true ->
  same_outcome num (eval None (S (S f)) (EApplyFn (EFn x b) a) sc st)
                   (eval None (S f) (subst x (EParens a) b) sc (bump num 2 st)).
Proof. exact (beta_subst_lemma num num_un num_bop builtin builtin_apply unit_of unit_static isparam assignable Hx Hbuiltin Hunit). Qed.

Theorem C09_beta_parens : forall f x (b a : expr num) sc st,
  config_ok num isparam assignable (EApply (EParens (EFn x b)) a) sc -> WFst num isparam assignable st ->
  capture_free x (idents a) b = true ->
  same_outcome num (eval None (S (S (S f))) (EApply (EParens (EFn x b)) a) sc st)
                   (eval None (S (S f)) (subst x (EParens a) b) sc (bump num 3 st)).
Proof. exact (beta_subst_apply_lemma num num_un num_bop builtin builtin_apply unit_of unit_static isparam assignable Hx Hbuiltin Hunit). Qed.

(* lexical scope, semantically: an expression with no free parameter name
   means the same in every scope *)
Theorem C09_scope_irrelevant : forall fire f (e : expr num) s1 s2 st,
  okp isparam assignable [] e = true -> wss isparam assignable s1 = true -> wss isparam assignable s2 = true -> WFst num isparam assignable st ->
  same_outcome num (eval fire f e s1 st) (eval fire f e s2 st).
Proof. exact (closed_scope_irrelevant_lemma num num_un num_bop builtin builtin_apply unit_of unit_static isparam assignable Hx Hbuiltin Hunit). Qed.

(* ---- let-substitution ----
   "Binding a name to an expression and then using the name gives the same
   result as writing the parenthesised expression in its place."
   x is the bound name (not a parameter name, not half of an a_b unit), e the
   right-hand side (no free parameter names), G the context variables e
   reads.  PURE: with at least K units of fuel, in every well-formed state
   that agrees with the reference on G, e evaluates -- changing no variable
   -- to a value with closed form cv.  The expressions in play assign neither
   to x nor to a name in G ([assignable]).  The state is one in which x holds
   a value with closed form cv ([InvX]; C09_let_after_assignment: the state
   right after x = e is such a state).
   The variable is read once-evaluated (call-by-value), the substituted text
   is re-evaluated at every use: the run with the text needs K more units of
   fuel (existential-fuel simulation), polls differ, results agree: same
   error, or values equal up to closed form and uses of x replaced by (e)
   inside closure bodies ([let_outcome]); numbers are equal. *)
Section Let.
Variable x : ident.
Variable e : expr num.
Variable G : list ident.
Hypothesis Hxg : isparam x = false.
Hypothesis Hxunit : forall b, unit_static (underscore_join x b) = None /\ unit_static (underscore_join b x) = None.
Hypothesis He : okp isparam assignable [] e = true.
Hypothesis Hassign : forall y, assignable y = true -> ident_eqb y x = false /\ inb y G = false.
Variable cv : value num.
Variable K : nat.
Variable vars0 : vars num.
Hypothesis Hpure : forall st fuel, WFst num isparam assignable st -> AgreeG num G vars0 st -> (K <= fuel)%nat ->
  exists s' v', eval None fuel e SNil st = (s', Good v') /\ nvs (s_vars s') = nvs (s_vars st) /\ nv v' = cv.

Theorem C09_let_subst : forall f (u : expr num) st,
  config_ok num isparam assignable u SNil -> WFst num isparam assignable st ->
  InvX num x e cv st -> AgreeG num G vars0 st ->
  snd (eval None f u SNil st) <> Bad EFuel ->
  let_outcome num x e (eval None f u SNil st) (eval None (f + K) (subst x (EParens e) u) SNil st).
Proof.
  exact (let_subst_lemma num num_un num_bop builtin builtin_apply unit_of unit_static isparam assignable
           Hx Hbuiltin Hunit x e G Hxg Hxunit He Hassign cv K vars0 Hpure).
Qed.

Theorem C09_let_subst_number : forall f (u : expr num) st s1 n,
  config_ok num isparam assignable u SNil -> WFst num isparam assignable st ->
  InvX num x e cv st -> AgreeG num G vars0 st ->
  eval None f u SNil st = (s1, Good (VNum n)) ->
  snd (eval None (f + K) (subst x (EParens e) u) SNil st) = Good (VNum n).
Proof.
  exact (let_subst_num_lemma num num_un num_bop builtin builtin_apply unit_of unit_static isparam assignable
           Hx Hbuiltin Hunit x e G Hxg Hxunit He Hassign cv K vars0 Hpure).
Qed.

Theorem C09_let_after_assignment : forall f0 st0 st v,
  WFst num isparam assignable st0 -> AgreeG num G vars0 st0 -> inb x G = false -> (K <= f0)%nat ->
  eval None (S f0) (EAssign x e) SNil st0 = (st, Good v) ->
  WFst num isparam assignable st /\ InvX num x e cv st /\ AgreeG num G vars0 st.
Proof.
  exact (let_after_assign_lemma num num_un num_bop builtin builtin_apply unit_of unit_static isparam assignable
           Hx Hbuiltin x e G He Hassign cv K vars0 Hpure).
Qed.
End Let.

(* purity is a semantic premise; it holds for number literals, lambdas and
   arithmetic on literals (and, by the same computation, for any right-hand
   side one can evaluate symbolically).  NOT proved: a syntactic criterion
   for arbitrary terminating right-hand sides (it needs fuel monotonicity and
   an independence-of-unread-variables lemma for the evaluator). *)
Theorem C09_pure_literal : forall (n : num) (st : state num) fuel, (1 <= fuel)%nat ->
  exists s' v', eval None fuel (ELit n) SNil st = (s', Good v')
    /\ nvs (s_vars s') = nvs (s_vars st) /\ nv v' = VNum n.
Proof. exact (pure_literal num num_un num_bop builtin builtin_apply unit_of unit_static). Qed.

Theorem C09_pure_lambda : forall p (b : expr num) (st : state num) fuel, (1 <= fuel)%nat ->
  exists s' v', eval None fuel (EFn p b) SNil st = (s', Good v')
    /\ nvs (s_vars s') = nvs (s_vars st) /\ nv v' = VFn p b SNil.
Proof. exact (pure_lambda num num_un num_bop builtin builtin_apply unit_of unit_static). Qed.

End Subst.

End C09.

Print Assumptions C09_scope_lookup_innermost.
Print Assumptions C09_scope_lookup_outer.
Print Assumptions C09_closure_creation.
Print Assumptions C09_closure_keeps_bindings.
Print Assumptions C09_closure_lexical.
Print Assumptions C09_beta_env.
Print Assumptions C09_beta_env_parens.
Print Assumptions C09_shadow_builtin.
Print Assumptions C09_shadow_exception_unit.
Print Assumptions C09_assigned_name_is_its_value.
Print Assumptions C09_ans_on_success.
Print Assumptions C09_ans_unchanged_on_failure.
Print Assumptions C09_completed_assignments_survive_failure.
Print Assumptions C09_lockstep.
Print Assumptions C09_beta.
Print Assumptions C09_beta_parens.
Print Assumptions C09_scope_irrelevant.
Print Assumptions C09_let_subst.
Print Assumptions C09_let_subst_number.
Print Assumptions C09_let_after_assignment.
Print Assumptions C09_pure_literal.
Print Assumptions C09_pure_lambda.

(* ------------------------------------------------------------------ *)
(* non-vacuity, on the integer instance *)

Definition idn (s : string) : ident := bytes_of_string s.
Definition run_texts (h : list (expr Z)) : list (list N) :=
  map (fun o => match fst o with Good v => show_value v | Bad e => [63; 48 + err_num e] end)
      (snd (zrun_history 100 (map (fun e => (e, None)) h) [])).

(* y = 10; f = (x: x + y); y = 20; f 1  gives 21: parameters are captured,
   context variables are read when the body runs *)
Example C09_late_global_binding :
  run_texts [EAssign (idn "y") (ELit 10%Z);
             EAssign (idn "f") (EParens (EFn (idn "x") (EBop BPlus (EIdent (idn "x")) (EIdent (idn "y")))));
             EAssign (idn "y") (ELit 20%Z);
             EApplyFn (EIdent (idn "f")) (ELit 1%Z)]
  = [B"10"; [92] ++ B"x.(x+y)"; B"20"; B"21"].
Proof. vm_compute. reflexivity. Qed.

(* (\x. \y. x + y) 1 applied to 2 in a caller scope that binds x to 100: the
   closure's x is 1 *)
Example C09_closure_example :
  snd (zeval None 50
    (EApplyFn (EApplyFn (EParens (EFn (idn "x") (EFn (idn "y") (EBop BPlus (EIdent (idn "x")) (EIdent (idn "y")))))) (ELit 1%Z)) (ELit 2%Z))
    (SCons (idn "x") (ELit 100%Z) SNil SNil) (mkS [] 0 [])) = Good (VNum 3%Z).
Proof. vm_compute. reflexivity. Qed.

(* the hypotheses of the failure theorems are satisfiable: a = 1; 1 + () fails
   after the assignment, which survives; ans is untouched *)
Example C09_failure_example :
  let e := EStmts (EAssign (idn "a") (ELit 1%Z)) (EBop BPlus (ELit 1%Z) EUnitLit) in
  let r := zeval None 50 e SNil (mkS [(id_ans, VNum 7%Z)] 0 []) in
  snd r = Bad EExpectedNum
  /\ get_var (idn "a") (s_vars (fst r)) = Some (VNum 1%Z)
  /\ get_var id_ans (s_vars (fst r)) = Some (VNum 7%Z).
Proof. vm_compute. auto. Qed.

(* the side conditions of the substitution theorems are satisfiable on the
   integer instance: parameter names are x and names starting with p;
   abs is not one; there are no a_b units *)
Definition zparam (x : ident) : bool := match x with c :: _ => (c =? 112) || ident_eqb x id_x | [] => false end.

Example C09_subst_hypotheses :
  zparam id_x = true
  /\ (forall x g, zbuiltin x = Some (inl g) -> zparam g = false)
  /\ (forall a b, zparam a = true \/ zparam b = true -> zunit (underscore_join a b) = None).
Proof.
  split; [reflexivity|]. split; [|reflexivity].
  intros x g. unfold zbuiltin. destruct (ident_eqb x id_abs); intro H; inversion H. reflexivity.
Qed.

(* (\p1. \p2. p1 + p2 * g) (g + 1): well-scoped, capture-free, and both sides of
   beta evaluate to closures with the same closed form *)
Example C09_beta_example :
  let b := EFn (idn "p2") (EBop BPlus (EIdent (idn "p1")) (EBop BMul (EIdent (idn "p2")) (EIdent (idn "g")))) in
  let a := EBop BPlus (EIdent (idn "g")) (ELit 1%Z) in
  let st := mkS [(idn "g", VNum 5%Z)] 0 [] in
  okp zparam (fun _ => true) [] (EApplyFn (EFn (idn "p1") b) a) = true
  /\ capture_free (idn "p1") (idents a) b = true
  /\ nout (snd (zeval None 20 (EApplyFn (EFn (idn "p1") b) a) SNil st))
     = nout (snd (zeval None 19 (subst (idn "p1") (EParens a) b) SNil st))
  /\ snd (zeval None 20 (EApplyFn (EFn (idn "p1") b) a) SNil st)
     <> snd (zeval None 19 (subst (idn "p1") (EParens a) b) SNil st).
Proof. vm_compute. repeat split. discriminate. Qed.

(* let: g = (p1: p1 * 3); g 4 + g 5  vs  (p1: p1 * 3) 4 + (p1: p1 * 3) 5 on the
   integer instance; the premises of C09_let_subst hold (x = g, e a lambda,
   G empty, K = 1, cv = the lambda over the empty scope) and the two runs give
   27 with fuel 10 and 11 *)
Example C09_let_example :
  let lam := EFn (idn "p1") (EBop BMul (EIdent (idn "p1")) (ELit 3%Z)) in
  let u := EBop BPlus (EApplyFn (EIdent (idn "g")) (ELit 4%Z)) (EApplyFn (EIdent (idn "g")) (ELit 5%Z)) in
  let asg := fun y => negb (ident_eqb y (idn "g")) in
  let st := fst (zeval None 3 (EAssign (idn "g") lam) SNil (mkS [] 0 [])) in
  get_var (idn "g") (s_vars st) = Some (VFn (idn "p1") (EBop BMul (EIdent (idn "p1")) (ELit 3%Z)) SNil)
  /\ okp zparam asg [] lam = true /\ okp zparam asg [] u = true /\ zparam (idn "g") = false
  /\ snd (zeval None 10 u SNil st) = Good (VNum 27%Z)
  /\ snd (zeval None 11 (subst (idn "g") (EParens lam) u) SNil st) = Good (VNum 27%Z).
Proof. vm_compute. repeat split. Qed.
