(* C06 (extension) -- the lexer, the first code every input reaches, cannot
   panic.  Property theorems only; each closed by [exact].

   Model of core/src/lexer.rs: Lex/Lexer.v (strings are lists of code points,
   every position is a BYTE offset, every slice goes through [split_at], which
   is a Panic when the offset is not a character boundary; 24 panic sites plus
   site 0 = model fuel).  Oracles, universally quantified here: the non-ASCII
   part of char::is_alphabetic, parse_number, Date::parse.  The only
   assumption is [num_contract]: when parse_number succeeds, what it returns
   as the rest is a proper suffix of its input (validated against the real
   parse_number on every run of the check).  Proofs: Lex/LexerProofs.v,
   Lex/Utf8Bridge.v. *)
From FendV Require Import Base.Prelude Lang.Syntax Crash.Utf8 Lex.Lexer Lex.LexerProofs Lex.Utf8Bridge.
Open Scope N_scope.

(* ---- no panic ---- *)

(* One step, from every lexer state, for every input (any list of code
   points, in particular every list of Unicode scalar values, i.e. every
   UTF-8 string), both separator styles: never a Panic site; end of input
   leaves nothing; a token leaves a proper suffix of the input. *)
Theorem C06_lex_next_token_no_panic :
  forall alpha_hi numparse dateparse, num_contract numparse ->
  forall st comma s,
    match next_token alpha_hi numparse dateparse st comma s with
    | LPanic _ => False
    | LErr _ => True
    | LOk (None, rest) => rest = []
    | LOk (Some _, rest) => exists pre, pre <> [] /\ s = pre ++ rest
    end.
Proof. exact next_token_good. Qed.
Print Assumptions C06_lex_next_token_no_panic.

(* The whole token loop (Iterator::next until None or the first Err), from
   the initial state, with the model's fuel: no Panic site and no fuel
   exhaustion. *)
Theorem C06_lex_no_panic :
  forall alpha_hi numparse dateparse, num_contract numparse ->
  forall comma s k, lex alpha_hi numparse dateparse comma s <> LPanic k.
Proof. exact lex_no_panic. Qed.
Print Assumptions C06_lex_no_panic.

(* ... and from every state, for every fuel above the number of characters *)
Theorem C06_lex_loop_no_panic :
  forall alpha_hi numparse dateparse, num_contract numparse ->
  forall comma fuel st s acc, (length s < fuel)%nat ->
  forall k, snd (lex_loop alpha_hi numparse dateparse fuel st comma s acc) <> LPanic k.
Proof. exact lex_loop_no_panic. Qed.
Print Assumptions C06_lex_loop_no_panic.

(* ---- progress, termination, fuel bound ---- *)

(* every token consumes at least one character, hence at least one byte *)
Theorem C06_lex_progress :
  forall alpha_hi numparse dateparse, num_contract numparse ->
  forall st comma s t rest,
    next_token alpha_hi numparse dateparse st comma s = LOk (Some t, rest) ->
    (length rest < length s)%nat /\ (blen rest < blen s)%nat /\ exists pre, s = pre ++ rest.
Proof. exact next_token_progress. Qed.
Print Assumptions C06_lex_progress.

(* fuel bound: number of characters + 1; any larger fuel gives the same result *)
Theorem C06_lex_fuel :
  forall alpha_hi numparse dateparse, num_contract numparse ->
  forall comma f1 f2 st s acc, (length s < f1)%nat -> (length s < f2)%nat ->
    lex_loop alpha_hi numparse dateparse f1 st comma s acc =
    lex_loop alpha_hi numparse dateparse f2 st comma s acc.
Proof. exact lex_loop_fuel. Qed.
Print Assumptions C06_lex_fuel.

(* the trace: at most one token per character; the byte lengths of the
   remaining input strictly decrease from below the input's byte length *)
Theorem C06_lex_trace_decreasing :
  forall alpha_hi numparse dateparse, num_contract numparse ->
  forall comma fuel st s acc, (length s < fuel)%nat ->
  exists tr, fst (lex_loop alpha_hi numparse dateparse fuel st comma s acc) = rev acc ++ tr /\
             decreasing (blen s) (map snd tr) /\ (length tr <= length s)%nat.
Proof. exact lex_loop_trace. Qed.
Print Assumptions C06_lex_trace_decreasing.

(* ---- the slicing is byte-level ---- *)

(* the model's split_at on a list of scalar values is str::split_at on its
   UTF-8 encoding (byte-level model of Crash/Utf8.v): same halves on success,
   and a panic exactly when the byte offset is not a char boundary *)
Theorem C06_lex_split_at_is_byte_level :
  forall k s mid, forallb is_scalar s = true ->
  match Lexer.split_at k s mid with
  | LOk (a, b) => Utf8.split_at (enc s) mid = Ok (enc a, enc b)
  | LPanic _ => Utf8.split_at (enc s) mid = Panic 1
  | LErr _ => False
  end.
Proof. exact split_at_bytes. Qed.
Print Assumptions C06_lex_split_at_is_byte_level.

(* a successful split is at the byte length of a whole-character prefix *)
Theorem C06_lex_split_at_inv :
  forall k s mid a b, Lexer.split_at k s mid = LOk (a, b) -> s = a ++ b /\ mid = blen a.
Proof. exact split_at_ok_inv. Qed.
Print Assumptions C06_lex_split_at_inv.

(* ---- the offset arithmetic computes character-level functions ---- *)

(* parse_ident (byte_idx accumulation + two split_at) is the longest run of
   characters each valid after its predecessor *)
Theorem C06_lex_parse_ident_spec :
  forall alpha_hi c r allow_dots,
  parse_ident alpha_hi (c :: r) allow_dots =
  if bad_ident_start alpha_hi c allow_dots then LErr (LEInvalidCharAtBeginningOfIdent c)
  else let '(a, b) := ident_span alpha_hi allow_dots c r in LOk (ident_token (c :: a), b).
Proof. exact parse_ident_eq. Qed.
Print Assumptions C06_lex_parse_ident_spec.

(* parse_quote_unit (split_idx accumulation, re-slicing the whole input in
   the loop) likewise *)
Theorem C06_lex_parse_quote_unit_spec :
  forall alpha_hi q r, len_utf8 q = 1%nat ->
  parse_quote_unit alpha_hi (q :: r) =
  match r with
  | [] => LOk (TIdent (enc [q]), [])
  | ch :: r' =>
    if is_alphabetic alpha_hi ch then
      let '(a, b) := ident_span alpha_hi true ch r' in LOk (TIdent (enc (q :: ch :: a)), b)
    else LOk (TIdent (enc [q]), r)
  end.
Proof. exact parse_quote_unit_eq. Qed.
Print Assumptions C06_lex_parse_quote_unit_spec.

(* a literal_length reported by the string-literal loop is the byte offset of
   an occurrence of the terminator, so split_at(literal_length + 1) is safe *)
Theorem C06_lex_string_literal_length :
  forall term fuel s i acc skip, (length s < fuel)%nat ->
  match string_loop fuel term (char_indices_from i s) acc skip with
  | LPanic _ => False
  | LErr _ => True
  | LOk (None, _) => True
  | LOk (Some idx, _) => exists pre post, s = pre ++ term :: post /\ idx = (i + blen pre)%nat
  end.
Proof. exact string_loop_good. Qed.
Print Assumptions C06_lex_string_literal_length.

(* ---- hypotheses are satisfiable, and needed ---- *)

Example C06_lex_contract_inhabited : num_contract demo_numparse.
Proof. exact demo_contract. Qed.

(* without the contract the loop need not terminate (fuel runs out) *)
Example C06_lex_contract_needed :
  lex no_alpha stuck_numparse no_dates false [49] = LPanic 0.
Proof. exact stuck_oracle_diverges. Qed.

(* Panic sites are reachable by wrong byte offsets: one byte into a two-byte
   character panics, two bytes splits *)
Example C06_lex_wrong_offset_panics :
  Lexer.split_at 1 [233; 97] 1 = LPanic 1 /\ Lexer.split_at 1 [233; 97] 2 = LOk ([233], [97]).
Proof. exact split_inside_char. Qed.
