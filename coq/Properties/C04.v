(* C04 -- Unit conversions are exact, invertible and mutually consistent.
   Property theorems only; each closed by [exact].

   The general theorems are about the model of num/unit.rs (Units/Algebra.v:
   to_hashmap_and_scale, reduce_hashmap, compute_scale_factor, Value::
   convert_to, Value::add) for ALL magnitudes and ALL unit expressions (lists
   of named units with rational exponents, arbitrary base-unit maps and
   scales).  [sem p r] reads a stored real (Simple q | Pi q) with pi := p; the
   equations hold for every p, i.e. with pi as a formal symbol.  A hypothesis
   [v_exact v = true] says that fend does not mark the result "approx.": in
   that case the result IS the formula; C04_convert_exact_simple shows that
   the hypothesis always holds when magnitudes and scale factor are rational.
   The finite theorems range over the regenerated unit table. *)
From FendV Require Import Base.Prelude Units.Defs Units.Algebra Units.AlgebraProofs Units.Lookup
     Units.Index Units.Legality Units.Table Units.TableProofs04 Units.Standards Units.Dim Units.Simplify Units.SimplifyProofs.
From FendV Require Import Units.Generated.UnitTable.
From Coq Require Import QArith.
Close Scope Q_scope.
Open Scope N_scope.

(* x A to B  =  (x * sA + (oA - oB)) / sB *)
Theorem C04_convert_formula : forall p a b sf v,
  compute_scale_factor (v_units a) (v_units b) = Ok sf ->
  v_convert_to a b = Ok v -> v_exact v = true ->
  (sem p (xv (sf_scale2 sf)) * sem p (v_val v)
   == sem p (v_val a) * sem p (xv (sf_scale1 sf)) + sem p (xv (sf_offset sf)))%Q.
Proof. exact convert_formula. Qed.
Print Assumptions C04_convert_formula.

(* the scale factor of A -> B is (sA, oA - oB, sB) where (sX, oX) depends on
   X alone, and the offset is one of 0, 273.15, 255.372... *)
Theorem C04_scale_factor_is_two_legs : forall from into sf,
  compute_scale_factor from into = Ok sf ->
  exists ha la hb lb, leg_of from = Ok (ha, la) /\ leg_of into = Ok (hb, lb) /\
    compare_hashmaps ha hb = true /\
    sf = mksf (lg_scale la) (er_add (lg_off la) (er_neg (lg_off lb))) (lg_scale lb) /\
    (xe (er_add (lg_off la) (er_neg (lg_off lb))) = true) /\
    (forall p, (sem p (xv (er_add (lg_off la) (er_neg (lg_off lb)))) == off_q (lg_off la) - off_q (lg_off lb))%Q).
Proof. exact compute_scale_factor_legs. Qed.
Print Assumptions C04_scale_factor_is_two_legs.

(* converting back returns the original quantity exactly (offsets included:
   this is convert_affine_inverse as well) *)
Theorem C04_convert_inverse : forall p a b a1 v1 v2 sfab sfba,
  compute_scale_factor (v_units a) (v_units b) = Ok sfab ->
  compute_scale_factor (v_units b) (v_units a1) = Ok sfba ->
  v_units a1 = v_units a ->
  v_convert_to a b = Ok v1 -> v_convert_to v1 a1 = Ok v2 ->
  v_exact v1 = true -> v_exact v2 = true ->
  ~ (sem p (xv (sf_scale1 sfab)) == 0)%Q -> ~ (sem p (xv (sf_scale2 sfab)) == 0)%Q ->
  (sem p (v_val v2) == sem p (v_val a))%Q.
Proof. exact convert_inverse. Qed.
Print Assumptions C04_convert_inverse.

(* going through an intermediate unit gives the same answer as converting directly *)
Theorem C04_convert_transitive : forall p a b c v1 v2 v3 sfab sfbc sfac,
  compute_scale_factor (v_units a) (v_units b) = Ok sfab ->
  compute_scale_factor (v_units b) (v_units c) = Ok sfbc ->
  compute_scale_factor (v_units a) (v_units c) = Ok sfac ->
  v_convert_to a b = Ok v1 -> v_convert_to v1 c = Ok v2 -> v_convert_to a c = Ok v3 ->
  v_exact v1 = true -> v_exact v2 = true -> v_exact v3 = true ->
  ~ (sem p (xv (sf_scale2 sfab)) == 0)%Q -> ~ (sem p (xv (sf_scale2 sfac)) == 0)%Q ->
  (sem p (v_val v2) == sem p (v_val v3))%Q.
Proof. exact convert_transitive. Qed.
Print Assumptions C04_convert_transitive.

(* a single fixed ratio ... *)
Theorem C04_convert_ratio : forall p a b sf v,
  compute_scale_factor (v_units a) (v_units b) = Ok sf ->
  v_convert_to a b = Ok v -> v_exact v = true ->
  (sem p (xv (sf_offset sf)) == 0)%Q -> ~ (sem p (xv (sf_scale2 sf)) == 0)%Q ->
  (sem p (v_val v) == sem p (v_val a) * (sem p (xv (sf_scale1 sf)) / sem p (xv (sf_scale2 sf))))%Q.
Proof. exact convert_ratio. Qed.
Print Assumptions C04_convert_ratio.

(* ... so scaling the quantity scales the result *)
Theorem C04_convert_linear : forall p k a a' b sf v v',
  compute_scale_factor (v_units a) (v_units b) = Ok sf ->
  v_units a' = v_units a -> (sem p (v_val a') == k * sem p (v_val a))%Q ->
  v_convert_to a b = Ok v -> v_convert_to a' b = Ok v' -> v_exact v = true -> v_exact v' = true ->
  (sem p (xv (sf_offset sf)) == 0)%Q -> ~ (sem p (xv (sf_scale2 sf)) == 0)%Q ->
  (sem p (v_val v') == k * sem p (v_val v))%Q.
Proof. exact convert_linear. Qed.
Print Assumptions C04_convert_linear.

(* sums use the scale only (no offset term), and adding zero is a no-op *)
Theorem C04_sum_uses_scale_only : forall p a b sf v,
  real_is_zero (v_val b) = false ->
  compute_scale_factor (v_units b) (v_units a) = Ok sf ->
  v_add a b = Ok v -> v_exact v = true ->
  (sem p (xv (sf_scale2 sf)) * sem p (v_val v)
   == sem p (xv (sf_scale2 sf)) * sem p (v_val a) + sem p (v_val b) * sem p (xv (sf_scale1 sf)))%Q.
Proof. exact add_formula. Qed.
Print Assumptions C04_sum_uses_scale_only.

(* rational magnitude and rational scale factor: the conversion succeeds and
   is exact, for every rational x *)
Theorem C04_convert_exact_simple : forall x ua b sf,
  compute_scale_factor ua (v_units b) = Ok sf -> sf_simple sf ->
  real_eqb (v_val b) (Simple 1) = true -> v_exact b = true ->
  real_is_zero (xv (sf_scale2 sf)) = false ->
  exists v, v_convert_to (mkval (Simple x) ua true true) b = Ok v /\ v_exact v = true
            /\ v_units v = v_units b /\ exists q, v_val v = Simple q.
Proof. exact convert_exact_simple. Qed.
Print Assumptions C04_convert_exact_simple.

(* temperatures: 0 degC = 32 degF = 273.15 K, 100 degC = 212 degF, -40 = -40,
   0 K = -273.15 degC = -459.67 degF, 491.67 degR = 273.15 K, 1 kilocelsius =
   1273.15 K -- computed by the model on the units of the regenerated table *)
Theorem C04_temperature_points :
  conv_q 0 n_degC n_degF = Some (Qmake 32 1) /\
  conv_q (Qmake 32 1) n_degF n_K = Some (Qmake 5463 20) /\
  conv_q 0 n_degC n_K = Some (Qmake 5463 20) /\
  conv_q (Qmake 100 1) n_degC n_degF = Some (Qmake 212 1) /\
  conv_q (Qmake (-40) 1) n_degC n_degF = Some (Qmake (-40) 1) /\
  conv_q 0 n_K n_degC = Some (Qmake (-5463) 20) /\
  conv_q 0 n_K n_degF = Some (Qmake (-45967) 100) /\
  conv_q (Qmake 49167 100) n_degR n_K = Some (Qmake 5463 20) /\
  conv_q 1 n_kilocelsius n_K = Some (Qmake 25463 20).
Proof. exact temperature_points. Qed.
Print Assumptions C04_temperature_points.

(* 1 degC + 1 K = 2 degC; 10 degC + 9 degF = 15 degC; 10 K + 1 degC = 11 K;
   1 J/degC = 1 J/K; 9 J/degF = 9 J/degF *)
Theorem C04_temperature_scale_only :
  add_q 1 n_degC 1 n_K = Some (Qmake 2 1) /\
  add_q (Qmake 10 1) n_degC (Qmake 9 1) n_degF = Some (Qmake 15 1) /\
  add_q (Qmake 10 1) n_K 1 n_degC = Some (Qmake 11 1) /\
  conv_per_q 1 n_J n_J n_degC = Some (Qmake 1 1) /\
  conv_per_q (Qmake 9 1) n_J n_J n_degF = Some (Qmake 9 1).
Proof. exact temperature_scale_only. Qed.
Print Assumptions C04_temperature_scale_only.

(* every name of the table has a non-zero scale *)
Theorem C04_scales_nonzero : forall n, In n all_names ->
  exists q, impl_quantity n = Some q /\ real_is_zero (q_scale q) = false.
Proof. exact scales_nonzero. Qed.
Print Assumptions C04_scales_nonzero.

(* the defining factors (Units/Standards.v, 289 entries, dyne included): 1 name = factor x SI
   base units exactly, for every entry whose name the table contains *)
Theorem C04_standards : forall n f dims r,
  In (n, f, dims) standards -> impl_entry n = Some r ->
  exists q, impl_quantity n = Some q /\ hmap_eqb dims (q_dim q) = true /\ q_exact q = true
            /\ real_eqb f (q_scale q) = true.
Proof. exact standards_hold. Qed.
Print Assumptions C04_standards.

(* --- Value::simplify: the implicit conversions applied before a number is
   printed (merging of compatible units, replacement of a compound unit by its
   default unit newton, joule, ..., liter) preserve the quantity --- *)

(* the physics dimension is unchanged, for every value, resolver and default
   table (pct_ok: a unit called % or percent has no base units) *)
Theorem C04_simplify_preserves_dimension : forall resolve defaults v r,
  simplify resolve defaults v = Ok r -> pct_ok (v_units v) -> forall k, (vdim r k == vdim v k)%Q.
Proof. exact simplify_preserves_dimension. Qed.
Print Assumptions C04_simplify_preserves_dimension.

(* the replacement by the default unit keeps value x scale: for every value and
   every default unit, whatever its own scale (liter = 1/1000 m^3) *)
Theorem C04_simplify_default_unit_preserves_quantity : forall p m rhs r sf,
  compute_scale_factor (v_units m) (v_units rhs) = Ok sf ->
  v_convert_to m rhs = Ok r -> v_exact r = true ->
  (sem p (xv (sf_offset sf)) == 0)%Q ->
  (sem p (v_val r) * sem p (xv (sf_scale2 sf)) == sem p (v_val m) * sem p (xv (sf_scale1 sf)))%Q.
Proof. exact default_step_preserves_quantity. Qed.
Print Assumptions C04_simplify_default_unit_preserves_quantity.

(* the whole of simplify keeps value x product of scale^exponent.
   Full statement wanted: for every value.  Proved: for every exact rational
   magnitude and every unit list made of "plain" units (non-zero rational
   scale, own conversion leg exact and without offset: all units of the table
   except the temperature scales, multiples of pi and inexact ones) with
   integer exponents -- any number of components, aliases and percentages
   included; the default-unit step is covered for all values by the theorem
   above.  Missing: pi-multiples, non-integer exponents, inexact magnitudes
   (the differential run covers those). *)
Theorem C04_simplify_preserves_quantity : forall resolve defaults v r x,
  simplify resolve defaults v = Ok r -> v_simp v = true ->
  v_val v = Simple x -> v_exact v = true -> Forall plain_comp (v_units v) ->
  exists m y, simplify_merge v = Ok m /\ v_val m = Simple y /\ (y * uq (v_units m) == x * uq (v_units v))%Q /\
    (r = m \/
     exists rhs sf, default_target resolve defaults m = Ok (Some rhs) /\
       compute_scale_factor (v_units m) (v_units rhs) = Ok sf /\ v_units r = v_units rhs /\
       (v_exact r = true -> forall p, (sem p (xv (sf_offset sf)) == 0)%Q ->
        (sem p (v_val r) * sem p (xv (sf_scale2 sf)) == y * sem p (xv (sf_scale1 sf)))%Q)).
Proof. exact simplify_preserves_quantity. Qed.
Print Assumptions C04_simplify_preserves_quantity.

(* --- non-vacuity --- *)
(* 5 km to inch through the model: units compatible, scale factor rational,
   result exact *)
Example C04_hypotheses_inhabited :
  match model_resolve [107;109], model_resolve [105;110;99;104] with
  | LOk va, LOk vb =>
    match compute_scale_factor (v_units va) (v_units vb), v_convert_to (with_val (Qmake 5 1) va) vb with
    | Ok sf, Ok v => v_exact v && real_eqb (v_val v) (Simple (Qmake 500000000 2540))
    | _, _ => false
    end
  | _, _ => false
  end = true.
Proof. vm_compute. reflexivity. Qed.

Example C04_standards_inhabited :
  (200 <=? N.of_nat (length (filter (fun e => match impl_entry (fst (fst e)) with Some _ => true | None => false end) standards))) = true.
Proof. vm_compute. reflexivity. Qed.

(* 1 hectare mm (two components that cannot be merged, dimension meter^3) is
   simplified by the model, with the default table of the tree, to exactly
   10000 liters; and a plain component exists *)
Example C04_simplify_inhabited :
  match model_resolve [104;101;99;116;97;114;101], model_resolve [109;109] with
  | LOk a, LOk b =>
    match simplify model_resolve gen_defaults (v_mul a b) with
    | Ok r => v_exact r && real_eqb (v_val r) (Simple (Qmake 10000 1))
              && match v_units r with [c] => str_eqb (nu_sing (ue_unit c)) [108;105;116;101;114] | _ => false end
    | _ => false
    end
  | _, _ => false
  end = true.
Proof. vm_compute. reflexivity. Qed.

Example C04_plain_inhabited : plain_comp (mkue u_metre 1%Q).
Proof. exact plain_metre. Qed.
