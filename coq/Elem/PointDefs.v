(* C15 -- vocabulary for the generated, individually certified reference
   points (gen/c15.py writes .cache/points/C15/points_*.v): the real
   functions the property names that Coq's standard library lacks, each with
   the lemma that justifies the definition, and the tactic that reduces a
   point  Rabs (f x - r) <= eps  to Interval's language.  Never extracted. *)
From Coq Require Import Reals Lra.
From Interval Require Import Tactic.
Open Scope R_scope.

Definition acosh (x : R) : R := ln (x + sqrt (x * x - 1)).
Definition atanh (x : R) : R := / 2 * ln ((1 + x) / (1 - x)).
Definition log2 (x : R) : R := ln x / ln 2.
Definition log10 (x : R) : R := ln x / ln 10.

Lemma cosh_acosh : forall x, 1 <= x -> cosh (acosh x) = x.
Proof.
  intros x Hx. unfold cosh, acosh.
  assert (Hs : 0 <= x * x - 1) by nra.
  pose proof (sqrt_pos (x * x - 1)) as Hsp.
  pose proof (sqrt_sqrt _ Hs) as Hss.
  set (s := sqrt (x * x - 1)) in *.
  assert (Hy : 0 < x + s) by lra.
  rewrite exp_Ropp, exp_ln by exact Hy.
  replace (/ (x + s)) with (x - s).
  - lra.
  - apply Rmult_eq_reg_l with (x + s); [|lra].
    rewrite Rinv_r by lra. nra.
Qed.

Lemma tanh_atanh : forall x, -1 < x < 1 -> tanh (atanh x) = x.
Proof.
  intros x [Hl Hu]. unfold tanh, sinh, cosh, atanh.
  assert (Hw : 0 < (1 + x) / (1 - x)).
  { apply Rdiv_lt_0_compat; lra. }
  set (w := (1 + x) / (1 - x)) in *.
  set (t := / 2 * ln w).
  pose proof (exp_pos t) as Ha.
  assert (Haa : exp t * exp t = w).
  { rewrite <- exp_plus. unfold t. replace (/ 2 * ln w + / 2 * ln w) with (ln w) by lra.
    apply exp_ln. exact Hw. }
  rewrite exp_Ropp. set (a := exp t) in *.
  assert (Hx : x = (w - 1) / (w + 1)).
  { unfold w. field. lra. }
  rewrite Hx. clearbody w. rewrite <- Haa. field. split; nra.
Qed.

Lemma log2_pow : forall n : nat, log2 (2 ^ n) = INR n.
Proof.
  intro n. unfold log2. rewrite ln_pow by lra.
  field. interval.
Qed.

(* reduce a point to Interval's vocabulary (+ - * / sqrt exp ln sin cos tan
   atan PI); asin/acos go through the standard library's asin_atan and
   acos_asin, whose side conditions -1 < x < 1 are themselves discharged by
   interval *)
Ltac pt_prepare :=
  unfold acosh, atanh, log2, log10, tanh, sinh, cosh, arcsinh, Rpower;
  repeat match goal with
  | |- context [acos ?x] => rewrite (acos_asin x) by (split; interval with (i_prec 200))
  | |- context [asin ?x] => rewrite (asin_atan x) by (split; interval with (i_prec 200))
  end;
  unfold Rsqr.

Ltac pt := pt_prepare; interval with (i_prec 200).
