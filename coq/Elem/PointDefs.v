(* C15 -- vocabulary for the generated, individually certified reference
   points (gen/c15.py writes .cache/points/C15/points_*.v): the real
   functions the property names that Coq's standard library lacks, each with
   the lemma that justifies the definition, and the tactic that reduces a
   point  Rabs (f x - r) <= eps  to Interval's language.  Never extracted. *)
From Coq Require Import Reals Lra.
From Interval Require Import Tactic.
Open Scope R_scope.

Definition acosh (x : R) : R := ln (x + sqrt (x * x - 1)).
Definition atanh (x : R) : R := / 2 * ln ((1 + x) / (1 - x)).
Definition log2 (x : R) : R := ln x / ln 2.
Definition log10 (x : R) : R := ln x / ln 10.

Lemma cosh_acosh : forall x, 1 <= x -> cosh (acosh x) = x.
Proof.
  intros x Hx. unfold cosh, acosh.
  assert (Hs : 0 <= x * x - 1) by nra.
  pose proof (sqrt_pos (x * x - 1)) as Hsp.
  pose proof (sqrt_sqrt _ Hs) as Hss.
  set (s := sqrt (x * x - 1)) in *.
  assert (Hy : 0 < x + s) by lra.
  rewrite exp_Ropp, exp_ln by exact Hy.
  replace (/ (x + s)) with (x - s).
  - lra.
  - apply Rmult_eq_reg_l with (x + s); [|lra].
    rewrite Rinv_r by lra. nra.
Qed.

Lemma tanh_atanh : forall x, -1 < x < 1 -> tanh (atanh x) = x.
Proof.
  intros x [Hl Hu]. unfold tanh, sinh, cosh, atanh.
  assert (Hw : 0 < (1 + x) / (1 - x)).
  { apply Rdiv_lt_0_compat; lra. }
  set (w := (1 + x) / (1 - x)) in *.
  set (t := / 2 * ln w).
  pose proof (exp_pos t) as Ha.
  assert (Haa : exp t * exp t = w).
  { rewrite <- exp_plus. unfold t. replace (/ 2 * ln w + / 2 * ln w) with (ln w) by lra.
    apply exp_ln. exact Hw. }
  rewrite exp_Ropp. set (a := exp t) in *.
  assert (Hx : x = (w - 1) / (w + 1)).
  { unfold w. field. lra. }
  rewrite Hx. clearbody w. rewrite <- Haa. field. split; nra.
Qed.

Lemma log2_pow : forall n : nat, log2 (2 ^ n) = INR n.
Proof.
  intro n. unfold log2. rewrite ln_pow by lra.
  field. interval with (i_prec 64).
Qed.

(* the values at the closed ends of the domains (the generated points use
   the right-hand sides directly: asin_atan needs -1 < x < 1) *)
Lemma edge_values :
  asin 1 = PI / 2 /\ asin (-1) = - (PI / 2) /\ acos 1 = 0 /\ acos (-1) = PI /\ acosh 1 = 0.
Proof.
  repeat split.
  - apply asin_1.
  - replace (asin (-1)) with (asin (Ropp 1)) by (f_equal; lra). rewrite asin_opp, asin_1. reflexivity.
  - apply acos_1.
  - replace (acos (-1)) with (acos (Ropp 1)) by (f_equal; lra). rewrite acos_opp, acos_1. ring.
  - unfold acosh. replace (1 * 1 - 1) with 0 by ring. rewrite sqrt_0, Rplus_0_r. apply ln_1.
Qed.

(* tanh of a large argument: exp x is out of reach for interval evaluation
   (and irrelevant): tanh x is within 1e-17 of 1 from x = 20 on *)
Lemma tanh_big_pos : forall x, 20 <= x -> 0 <= 1 - tanh x <= 1 / 10 ^ 17.
Proof.
  intros x Hx. unfold tanh, sinh, cosh.
  pose proof (exp_pos x) as Ha. pose proof (exp_pos (- x)) as Hb.
  assert (Hab : exp x * exp (- x) = 1) by (rewrite <- exp_plus, Rplus_opp_r; apply exp_0).
  assert (Hb40 : exp (- x) <= exp (- 20)).
  { destruct (Rle_lt_or_eq_dec 20 x Hx) as [Hlt|Heq].
    - left. apply exp_increasing. lra.
    - subst x. right. reflexivity. }
  assert (He : exp (- 20) <= 21 / 10 ^ 10) by (interval with (i_prec 64)).
  assert (H1 : 1 <= exp x).
  { left. rewrite <- exp_0. apply exp_increasing. lra. }
  set (a := exp x) in *. set (b := exp (- x)) in *.
  replace (1 - (a - b) / 2 / ((a + b) / 2)) with (2 * b / (a + b)) by (field; lra).
  split.
  - apply Rmult_le_pos; [lra|]. left. apply Rinv_0_lt_compat. lra.
  - apply Rmult_le_reg_r with (a + b); [lra|].
    unfold Rdiv. rewrite Rmult_assoc, Rinv_l by lra.
    assert (b <= 21 / 10 ^ 10) by lra.
    assert (Hbb : b * b <= (21 / 10 ^ 10) * (21 / 10 ^ 10)) by (apply Rmult_le_compat; lra).
    (* 2b = 2b * (a*b) = 2 b^2 a *)
    assert (2 * b = 2 * (b * b) * a) by (rewrite <- (Rmult_1_r (2 * b)) at 1; rewrite <- Hab; ring).
    nra.
Qed.

Lemma tanh_opp : forall x, tanh (- x) = - tanh x.
Proof. intro x. unfold tanh, sinh, cosh. rewrite Ropp_involutive. field.
  pose proof (exp_pos x). pose proof (exp_pos (- x)). lra. Qed.

Lemma tanh_big : forall x r eps, 20 <= x -> Rabs (1 - r) + 1 / 10 ^ 17 <= eps -> Rabs (tanh x - r) <= eps.
Proof.
  intros x r eps Hx He. pose proof (tanh_big_pos x Hx) as [H0 H1].
  replace (tanh x - r) with ((1 - r) - (1 - tanh x)) by ring.
  eapply Rle_trans; [apply Rabs_triang|].
  rewrite Rabs_Ropp, (Rabs_right (1 - tanh x)) by lra. lra.
Qed.

Lemma tanh_big_neg : forall x r eps, x <= -20 -> Rabs (-1 - r) + 1 / 10 ^ 17 <= eps -> Rabs (tanh x - r) <= eps.
Proof.
  intros x r eps Hx He. pose proof (tanh_big_pos (- x) ltac:(lra)) as [H0 H1].
  rewrite tanh_opp in *.
  replace (tanh x - r) with ((-1 - r) + (1 + tanh x)) by ring.
  eapply Rle_trans; [apply Rabs_triang|].
  rewrite (Rabs_right (1 + tanh x)) by lra. lra.
Qed.

(* ... and the negated forms (a value that is NOT within the budget) *)
Lemma tanh_big_far : forall x r t, 20 <= x ->
  t + 1 / 10 ^ 17 < Rabs (1 - r) -> t < Rabs (tanh x - r).
Proof.
  intros x r t Hx H. pose proof (tanh_big_pos x Hx) as [H0 H1].
  replace (tanh x - r) with ((1 - r) - (1 - tanh x)) by ring.
  pose proof (Rabs_triang_inv (1 - r) (1 - tanh x)) as Ht.
  rewrite (Rabs_right (1 - tanh x)) in Ht by lra. lra.
Qed.

Lemma tanh_big_far_rel : forall x r, 20 <= x ->
  1 / 10 ^ 9 + 1 / 10 ^ 17 < Rabs (1 - r) -> 1 / 10 ^ 9 * Rabs (tanh x) + 0 < Rabs (tanh x - r).
Proof.
  intros x r Hx H. pose proof (tanh_big_pos x Hx) as [H0 H1].
  assert (Hb : Rabs (tanh x) <= 1).
  { apply Rabs_le. assert (1 / 10 ^ 17 < 1) by (interval with (i_prec 64)). lra. }
  assert (Hf : 1 / 10 ^ 9 < Rabs (tanh x - r)) by (apply tanh_big_far; assumption).
  assert (0 < 1 / 10 ^ 9) by (interval with (i_prec 64)).
  assert (1 / 10 ^ 9 * Rabs (tanh x) <= 1 / 10 ^ 9 * 1) by (apply Rmult_le_compat_l; lra).
  lra.
Qed.

Lemma tanh_big_far_neg : forall x r t, x <= -20 ->
  t + 1 / 10 ^ 17 < Rabs (-1 - r) -> t < Rabs (tanh x - r).
Proof.
  intros x r t Hx H. pose proof (tanh_big_pos (- x) ltac:(lra)) as [H0 H1].
  rewrite tanh_opp in *.
  replace (tanh x - r) with ((-1 - r) - (- (1 + tanh x))) by ring.
  pose proof (Rabs_triang_inv (-1 - r) (- (1 + tanh x))) as Ht.
  rewrite Rabs_Ropp, (Rabs_right (1 + tanh x)) in Ht by lra. lra.
Qed.

Lemma tanh_big_far_rel_neg : forall x r, x <= -20 ->
  1 / 10 ^ 9 + 1 / 10 ^ 17 < Rabs (-1 - r) -> 1 / 10 ^ 9 * Rabs (tanh x) + 0 < Rabs (tanh x - r).
Proof.
  intros x r Hx H. pose proof (tanh_big_pos (- x) ltac:(lra)) as [H0 H1].
  rewrite tanh_opp in *.
  assert (Hb : Rabs (tanh x) <= 1).
  { apply Rabs_le. assert (1 / 10 ^ 17 < 1) by (interval with (i_prec 64)). lra. }
  assert (Hf : 1 / 10 ^ 9 < Rabs (tanh x - r)) by (apply tanh_big_far_neg; assumption).
  assert (0 < 1 / 10 ^ 9) by (interval with (i_prec 64)).
  assert (1 / 10 ^ 9 * Rabs (tanh x) <= 1 / 10 ^ 9 * 1) by (apply Rmult_le_compat_l; lra).
  lra.
Qed.

Ltac pt_tanh_big_not :=
  split;
  [ first [ apply tanh_big_far; [lra | interval with (i_prec 200)]
          | apply tanh_big_far_neg; [lra | interval with (i_prec 200)] ]
  | first [ apply tanh_big_far_rel; [lra | interval with (i_prec 200)]
          | apply tanh_big_far_rel_neg; [lra | interval with (i_prec 200)] ] ].

Ltac pt_tanh_big := first [ apply tanh_big; [lra | interval with (i_prec 200)]
                          | apply tanh_big_neg; [lra | interval with (i_prec 200)] ].

(* reduce a point to Interval's vocabulary (+ - * / sqrt exp ln sin cos tan
   atan PI); asin/acos go through the standard library's asin_atan and
   acos_asin, whose side conditions -1 < x < 1 are themselves discharged by
   interval *)
Ltac pt_prepare :=
  unfold acosh, atanh, log2, log10, tanh, sinh, cosh, arcsinh, Rpower, tan;
  repeat match goal with
  | |- context [acos ?x] => rewrite (acos_asin x) by (split; interval with (i_prec 120))
  | |- context [asin ?x] => rewrite (asin_atan x) by (split; interval with (i_prec 120))
  end;
  unfold Rsqr.

Ltac pt := pt_prepare; first [ interval with (i_prec 90) | interval with (i_prec 300) ].
