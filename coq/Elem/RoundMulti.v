(* C15 -- BigUint::as_f64 and BigRat::into_f64 on operands of any number of
   limbs below 2^1023: every limb step of as_f64 (res * 2^64, then + limb as
   f64) is two roundings of relative error 2^-53, so after L <= 16 limbs the
   result is within (1+2^-53)^(2L) - 1 of the integer; one more rounding for
   the division.  This discharges the hypothesis [into_ok] of the conditional
   accuracy theorems for all such operands. *)
From FendV Require Import Base.Prelude Elem.Bridge Elem.Model Elem.RootProofs Elem.RoundProofs.
From Coq Require Import QArith Lia ZArith Reals Lra Qreals.
From Interval Require Import Tactic.
Open Scope R_scope.

(* ------------------------------------------------------------------ *)
(* powers of two: monotonicity *)

Lemma p2_ge_1 : forall k, (0 <= k)%Z -> 1 <= p2 k.
Proof.
  intros k Hk. rewrite <- (Z2N.id k) by exact Hk. rewrite p2_of_N.
  unfold RN. apply IZR_le.
  assert (0 < 2 ^ Z.to_N k)%N by (apply N.neq_0_lt_0, N.pow_nonzero; discriminate). lia.
Qed.

Lemma p2_le : forall a b, (a <= b)%Z -> p2 a <= p2 b.
Proof.
  intros a b H. replace b with (a + (b - a))%Z by lia. rewrite p2_add.
  pose proof (p2_pos a). pose proof (p2_ge_1 (b - a) ltac:(lia)). nra.
Qed.

Lemma p2_lt_inv : forall a b, p2 a < p2 b -> (a < b)%Z.
Proof.
  intros a b H. destruct (Z.lt_ge_cases a b) as [Hc|Hc]; [exact Hc|].
  pose proof (p2_le b a Hc). lra.
Qed.

Lemma p2_succ : forall a, p2 (a + 1) = 2 * p2 a.
Proof. intro a. rewrite p2_add. change (p2 1) with (powerRZ 2 1). simpl. lra. Qed.

Lemma RN_lt_inv : forall a b, RN a < RN b -> (a < b)%N.
Proof. intros a b H. unfold RN in H. apply lt_IZR in H. lia. Qed.

Lemma RN_2_52 : RN (2 ^ 52) = 2 ^ 52.
Proof. unfold RN. change (Z.of_N (2 ^ 52)) with 4503599627370496%Z. lra. Qed.

Lemma RN_2_53 : RN (2 ^ 53) = 2 ^ 53.
Proof. unfold RN. change (Z.of_N (2 ^ 53)) with 9007199254740992%Z. lra. Qed.

(* ------------------------------------------------------------------ *)
(* round_pos, normal range including the top binade, in terms of the value *)

Lemma scaled_d_pos : forall d sh, (0 < d)%N -> (0 < scaled_d d sh)%N.
Proof.
  intros d sh Hd. unfold scaled_d. destruct (0 <=? sh)%Z; [exact Hd|].
  apply N.mul_pos_pos; [exact Hd|]. apply N.neq_0_lt_0, N.pow_nonzero. discriminate.
Qed.

(* the value lies in the binade selected by sel_e *)
Lemma value_in_binade : forall n d s, (0 < n)%N -> (0 < d)%N ->
  let v := RN n * p2 s / RN d in
  p2 (sel_e n d + s) <= v < p2 (sel_e n d + s + 1).
Proof.
  intros n d s Hn Hd v.
  set (sh := (52 - sel_e n d)%Z).
  pose proof (scaled_bounds n d Hn Hd) as [Hb1 Hb2]. fold sh in Hb1, Hb2.
  pose proof (scaled_d_pos d sh Hd) as Hd'.
  set (n' := scaled_n n sh) in *. set (d' := scaled_d d sh) in *.
  pose proof (RN_pos d' Hd') as Hdp.
  assert (Hv : v = RN n' / RN d' * p2 (sel_e n d + s - 52)).
  { unfold v. rewrite (scaled_value n d s sh Hd). f_equal. f_equal. unfold sh. lia. }
  apply RN_le in Hb1. apply RN_lt in Hb2. rewrite RN_mul in Hb1, Hb2. rewrite RN_2_52 in Hb1. rewrite RN_2_53 in Hb2.
  set (w := RN n' / RN d') in *.
  assert (Hw1 : RN n' = w * RN d') by (unfold w; field; lra).
  assert (Hwlo : 2 ^ 52 <= w).
  { apply Rmult_le_reg_r with (RN d'); [exact Hdp|]. lra. }
  assert (Hwhi : w < 2 ^ 53).
  { apply Rmult_lt_reg_r with (RN d'); [exact Hdp|]. lra. }
  set (ex := (sel_e n d + s - 52)%Z) in *. pose proof (p2_pos ex) as Hpe.
  assert (H52 : p2 52 = 2 ^ 52) by (change (p2 52) with (powerRZ 2 52); simpl; lra).
  replace (sel_e n d + s)%Z with (52 + ex)%Z by (unfold ex; lia).
  replace (52 + ex + 1)%Z with (52 + ex + 1)%Z by lia.
  rewrite p2_succ, p2_add, H52, Hv.
  assert (H53 : (2:R) ^ 53 = 2 * 2 ^ 52) by (simpl; lra). rewrite H53 in Hwhi.
  set (T := (2:R) ^ 52) in *. assert (0 < T) by (unfold T; apply pow_lt; lra).
  split; [apply Rmult_le_compat_r; lra|].
  replace (2 * (T * p2 ex)) with ((2 * T) * p2 ex) by ring. apply Rmult_lt_compat_r; lra.
Qed.

Theorem round_pos_value : forall neg n d s, (0 < n)%N -> (0 < d)%N ->
  let v := RN n * p2 s / RN d in
  p2 (-1000) <= v -> v <= 3 / 2 * p2 1023 ->
  exists m e, round_pos neg n d s = FFin neg m e /\
              (2 ^ 52 <= m <= 2 ^ 53)%N /\
              Rabs (RN m * p2 e - v) <= u53 * v /\ 0 < v.
Proof.
  intros neg n d s Hn Hd v Hlo Hhi.
  pose proof (value_in_binade n d s Hn Hd) as [Hb1 Hb2]. fold v in Hb1, Hb2.
  set (e := (sel_e n d + s)%Z) in *.
  assert (He1 : (-1022 <= e)%Z).
  { assert (p2 (-1000) < p2 (e + 1)) by lra. apply p2_lt_inv in H. lia. }
  assert (He2 : (e <= 1023)%Z).
  { assert (p2 e < p2 1024).
    { eapply Rle_lt_trans; [exact Hb1|]. eapply Rle_lt_trans; [exact Hhi|].
      replace 1024%Z with (1023 + 1)%Z by lia. rewrite !p2_succ. pose proof (p2_pos 1023). lra. }
    apply p2_lt_inv in H. lia. }
  destruct (Z.le_gt_cases e 1022) as [Hn1|Htop].
  - destruct (round_pos_rel_error neg n d s Hn Hd ltac:(fold e; lia)) as [m [Hr [Hm [Herr Hv]]]].
    exists m, (e - 52)%Z. repeat split; try assumption; try (destruct Hm; assumption).
  - (* the top binade: e = 1023, and v <= 3/2 * 2^1023 keeps the mantissa below 2^53 *)
    assert (He : e = 1023%Z) by lia.
    set (sh := (52 - sel_e n d)%Z).
    pose proof (scaled_bounds n d Hn Hd) as [Hs1 Hs2]. fold sh in Hs1, Hs2.
    pose proof (scaled_d_pos d sh Hd) as Hd'.
    set (n' := scaled_n n sh) in *. set (d' := scaled_d d sh) in *.
    pose proof (RN_pos d' Hd') as Hdp.
    assert (Hvv : v = RN n' / RN d' * p2 (e - 52)).
    { unfold v. rewrite (scaled_value n d s sh Hd). f_equal. f_equal. unfold sh, e. lia. }
    assert (Htopn : (n' < (2 ^ 53 - 1) * d')%N).
    { apply RN_lt_inv. rewrite RN_mul.
      assert (H53 : RN (2 ^ 53 - 1) = 2 ^ 53 - 1).
      { unfold RN. change (Z.of_N (2 ^ 53 - 1)) with 9007199254740991%Z. lra. }
      rewrite H53.
      assert (Hw : RN n' / RN d' <= 3 / 2 * 2 ^ 52).
      { assert (Hp : p2 1023 = 2 ^ 52 * p2 (e - 52)).
        { rewrite He. replace 1023%Z with (52 + (1023 - 52))%Z at 1 by lia. rewrite p2_add.
          change (p2 52) with (powerRZ 2 52). simpl. lra. }
        pose proof (p2_pos (e - 52)) as Hpp. rewrite Hp, Hvv in Hhi.
        apply Rmult_le_reg_r with (p2 (e - 52)); [exact Hpp|]. lra. }
      assert (Hn' : RN n' = RN n' / RN d' * RN d') by (field; lra).
      rewrite Hn'. apply Rmult_lt_compat_r; [exact Hdp|]. lra. }
    set (m := nearest n' d').
    assert (Hm : (2 ^ 52 <= m <= 2 ^ 53 - 1)%N) by (unfold m; apply nearest_bounds; assumption).
    assert (Hr : round_pos neg n d s = FFin neg m (e - 52)).
    { unfold round_pos.
      destruct (N.eqb_spec n 0) as [Hz|_]; [lia|].
      assert (Hsel : (if (d * 2 ^ N.log2 n <=? n * 2 ^ N.log2 d)%N
                      then (Z.of_N (N.log2 n) - Z.of_N (N.log2 d) + s)%Z
                      else (Z.of_N (N.log2 n) - Z.of_N (N.log2 d) + s - 1)%Z) = e).
      { unfold e, sel_e. destruct (d * 2 ^ N.log2 n <=? n * 2 ^ N.log2 d)%N; lia. }
      rewrite Hsel. rewrite Z.max_l by lia.
      replace (s - (e - 52))%Z with sh by (unfold sh, e; lia).
      fold (scaled_n n sh). fold (scaled_d d sh). fold n' d'.
      fold (nearest n' d'). fold m.
      destruct (Z.leb_spec 1025 (Z.of_N (N.size m) + (e - 52))) as [Hov|_]; [|reflexivity].
      exfalso.
      assert (Hm0 : m <> 0%N) by (destruct Hm as [Hm _]; intro Hc; rewrite Hc in Hm; vm_compute in Hm; congruence).
      assert (Hsz : (N.size m <= 53)%N).
      { rewrite N.size_log2 by exact Hm0.
        assert (N.log2 m < 53)%N; [|lia]. apply N.log2_lt_pow2; lia. }
      lia. }
    exists m, (e - 52)%Z. split; [exact Hr|]. split; [lia|].
    (* the error bound: as in round_pos_rel_error *)
    pose proof (nearest_spec n' d' Hd') as [Hn1 Hn2]. fold m in Hn1, Hn2.
    apply RN_le in Hn1. apply RN_le in Hn2. apply RN_le in Hs1.
    unfold RN in Hn1, Hn2. rewrite !N2Z.inj_add, !N2Z.inj_mul, !plus_IZR, !mult_IZR in Hn1, Hn2.
    fold (RN m) (RN n') (RN d') in Hn1, Hn2. change (IZR (Z.of_N 2)) with 2 in Hn1, Hn2.
    rewrite RN_mul, RN_2_52 in Hs1.
    set (w := RN n' / RN d') in *.
    assert (Hw1 : RN n' = w * RN d') by (unfold w; field; lra).
    assert (Hwlo : 2 ^ 52 <= w).
    { apply Rmult_le_reg_r with (RN d'); [exact Hdp|]. lra. }
    assert (Hmw : Rabs (RN m - w) <= / 2).
    { apply Rabs_le. rewrite Hw1 in Hn1, Hn2. split.
      - apply Rmult_le_reg_r with (RN d'); [exact Hdp|]. nra.
      - apply Rmult_le_reg_r with (RN d'); [exact Hdp|]. nra. }
    pose proof (p2_pos (e - 52)) as Hpe.
    assert (Hvpos : 0 < v).
    { rewrite Hvv. apply Rmult_lt_0_compat; [|exact Hpe]. assert (0 < 2 ^ 52) by (apply pow_lt; lra). lra. }
    split; [|exact Hvpos].
    rewrite Hvv. replace (RN m * p2 (e - 52) - w * p2 (e - 52)) with ((RN m - w) * p2 (e - 52)) by ring.
    rewrite Rabs_mult, (Rabs_right (p2 (e - 52))) by lra.
    assert (H53 : / 2 <= u53 * w).
    { unfold u53. apply Rmult_le_reg_l with (2 ^ 53); [apply pow_lt; lra|].
      rewrite <- Rmult_assoc, Rinv_r, Rmult_1_l by (apply pow_nonzero; lra).
      replace (2 ^ 53 * / 2) with (2 ^ 52) by (simpl; lra). exact Hwlo. }
    replace (u53 * (w * p2 (e - 52))) with (u53 * w * p2 (e - 52)) by ring.
    apply Rmult_le_compat_r; lra.
Qed.

(* ------------------------------------------------------------------ *)
(* the float operations of as_f64 / into_f64, by value *)

Definition pgood (x : fl) : Prop :=
  exists m e, x = FFin false m e /\ (2 ^ 52 <= m <= 2 ^ 53)%N.

Lemma flv_pos : forall m e, flv (FFin false m e) = RN m * p2 e.
Proof. intros. cbn [flv]. lra. Qed.

Lemma p2_64 : p2 64 = 2 ^ 64.
Proof. change (p2 64) with (powerRZ 2 64). simpl. lra. Qed.

Lemma p2_neg : forall e, p2 (- e) = / p2 e.
Proof.
  intro e. pose proof (p2_pos e). apply Rmult_eq_reg_l with (p2 e); [|lra].
  rewrite <- p2_add, Rinv_r by lra. replace (e + - e)%Z with 0%Z by lia. apply p2_0.
Qed.

(* res * 2^64 *)
Lemma fl_scale64_spec : forall m e, (0 < m)%N ->
  let X := RN m * p2 e * 2 ^ 64 in
  p2 (-1000) <= X -> X <= 3 / 2 * p2 1023 ->
  pgood (fl_scale64 (FFin false m e)) /\
  Rabs (flv (fl_scale64 (FFin false m e)) - X) <= u53 * X.
Proof.
  intros m e Hm X Hlo Hhi. cbn [fl_scale64].
  assert (Hv : RN m * p2 (e + 64) / RN 1 = X).
  { unfold X. rewrite p2_add, p2_64, RN_1. field. }
  destruct (round_pos_value false m 1 (e + 64) Hm ltac:(lia)) as [m' [e' [Hr [Hm' [Herr _]]]]];
    try (rewrite Hv; assumption).
  rewrite Hv in Herr. rewrite Hr. split.
  - exists m', e'. split; [reflexivity|exact Hm'].
  - rewrite flv_pos. exact Herr.
Qed.

(* x + y for two non-negative finite floats *)
Lemma fl_add_pos_spec : forall m1 e1 m2 e2,
  let S := RN m1 * p2 e1 + RN m2 * p2 e2 in
  p2 (-1000) <= S -> S <= 3 / 2 * p2 1023 ->
  pgood (fl_add (FFin false m1 e1) (FFin false m2 e2)) /\
  Rabs (flv (fl_add (FFin false m1 e1) (FFin false m2 e2)) - S) <= u53 * S.
Proof.
  intros m1 e1 m2 e2 S Hlo Hhi. unfold fl_add, sgnZ.
  set (emin := Z.min e1 e2).
  set (z := (Z.of_N m1 * 2 ^ (e1 - emin) + Z.of_N m2 * 2 ^ (e2 - emin))%Z).
  assert (Hp1 : (0 < 2 ^ (e1 - emin))%Z) by (apply Z.pow_pos_nonneg; unfold emin; lia).
  assert (Hp2 : (0 < 2 ^ (e2 - emin))%Z) by (apply Z.pow_pos_nonneg; unfold emin; lia).
  assert (Hz0 : (0 <= z)%Z) by (unfold z; nia).
  set (zn := Z.abs_N z).
  assert (Hzn : zn = (m1 * 2 ^ Z.to_N (e1 - emin) + m2 * 2 ^ Z.to_N (e2 - emin))%N).
  { unfold zn. apply N2Z.inj. rewrite N2Z.inj_abs_N, Z.abs_eq by lia.
    rewrite N2Z.inj_add, !N2Z.inj_mul, !N2Z.inj_pow, !Z2N.id by (unfold emin; lia). reflexivity. }
  assert (HS : RN zn * p2 emin / RN 1 = S).
  { rewrite Hzn. unfold RN at 1. rewrite N2Z.inj_add, plus_IZR. fold (RN (m1 * 2 ^ Z.to_N (e1 - emin))) (RN (m2 * 2 ^ Z.to_N (e2 - emin))).
    rewrite !RN_mul, <- !p2_of_N, !Z2N.id by (unfold emin; lia).
    unfold S. replace e1 with ((e1 - emin) + emin)%Z at 2 by lia.
    replace e2 with ((e2 - emin) + emin)%Z at 2 by lia. rewrite !p2_add, RN_1. field. }
  assert (HSpos : 0 < S) by (pose proof (p2_pos (-1000)); lra).
  assert (Hznpos : (0 < zn)%N).
  { destruct (N.eq_0_gt_0_cases zn) as [Hc|Hc]; [|exact Hc].
    exfalso. rewrite Hc in HS. unfold RN at 1 in HS. simpl in HS. lra. }
  assert (Hzpos : (0 < z)%Z) by (unfold zn in Hznpos; lia).
  destruct (Z.eqb_spec z 0) as [Hc|_]; [lia|].
  destruct (Z.ltb_spec z 0) as [Hc|_]; [lia|].
  fold zn.
  destruct (round_pos_value false zn 1 emin Hznpos ltac:(lia)) as [m' [e' [Hr [Hm' [Herr _]]]]];
    try (rewrite HS; assumption).
  rewrite HS in Herr. rewrite Hr. split.
  - exists m', e'. split; [reflexivity|exact Hm'].
  - rewrite flv_pos. exact Herr.
Qed.

(* x / y for two positive finite floats *)
Lemma fl_div_pos_spec : forall m1 e1 m2 e2, (0 < m1)%N -> (0 < m2)%N ->
  let V := (RN m1 * p2 e1) / (RN m2 * p2 e2) in
  p2 (-1000) <= V -> V <= 3 / 2 * p2 1023 ->
  pgood (fl_div (FFin false m1 e1) (FFin false m2 e2)) /\
  Rabs (flv (fl_div (FFin false m1 e1) (FFin false m2 e2)) - V) <= u53 * V.
Proof.
  intros m1 e1 m2 e2 H1 H2 V Hlo Hhi. unfold fl_div.
  destruct (N.eqb_spec m2 0) as [Hc|_]; [lia|]. simpl xorb.
  pose proof (RN_pos m1 H1). pose proof (RN_pos m2 H2).
  pose proof (p2_pos e1). pose proof (p2_pos e2).
  assert (Hval : RN m1 * p2 (e1 - e2) / RN m2 = V).
  { unfold V. replace (e1 - e2)%Z with (e1 + - e2)%Z by lia. rewrite p2_add, p2_neg.
    field. split; lra. }
  destruct (round_pos_value false m1 m2 (e1 - e2) H1 H2) as [m' [e' [Hr [Hm' [Herr _]]]]];
    try (rewrite Hval; assumption).
  rewrite Hval in Herr. rewrite Hr. split.
  - exists m', e'. split; [reflexivity|exact Hm'].
  - rewrite flv_pos. exact Herr.
Qed.

(* ------------------------------------------------------------------ *)
(* limbs *)

Definition horner (V : N) (ls : list N) : N := fold_left (fun a l => (a * 2 ^ 64 + l)%N) ls V.

Lemma horner_cons : forall V l ls, horner V (l :: ls) = horner (V * 2 ^ 64 + l)%N ls.
Proof. reflexivity. Qed.

Lemma horner_ge : forall ls V, (V <= horner V ls)%N.
Proof.
  induction ls as [|l ls IH]; intro V; [apply N.le_refl|].
  rewrite horner_cons. eapply N.le_trans; [|apply IH].
  assert (0 < 2 ^ 64)%N by reflexivity. nia.
Qed.

Lemma limbs_be_fuel_horner : forall f n acc, (n < 2 ^ (64 * N.of_nat f))%N ->
  horner 0 (limbs_be_fuel f n acc) = horner n acc.
Proof.
  induction f as [|f IH]; intros n acc Hn.
  - simpl in Hn. assert (n = 0%N) by lia. subst n. reflexivity.
  - cbn [limbs_be_fuel]. destruct (N.eqb_spec n 0) as [->|Hn0]; [reflexivity|].
    rewrite IH.
    + rewrite horner_cons. f_equal. rewrite N.mul_comm. symmetry. apply N.div_mod'.
    + apply N.div_lt_upper_bound; [discriminate|].
      rewrite <- N.pow_add_r. replace (64 + 64 * N.of_nat f)%N with (64 * N.of_nat (S f))%N by lia. exact Hn.
Qed.

Lemma limbs_be_fuel_small : forall f n acc,
  Forall (fun l => (l < 2 ^ 64)%N) acc -> Forall (fun l => (l < 2 ^ 64)%N) (limbs_be_fuel f n acc).
Proof.
  induction f as [|f IH]; intros n acc Ha; [exact Ha|].
  cbn [limbs_be_fuel]. destruct (n =? 0)%N; [exact Ha|].
  apply IH. constructor; [|exact Ha]. apply N.mod_lt. discriminate.
Qed.

Lemma limbs_be_fuel_length : forall f n acc,
  (length (limbs_be_fuel f n acc) <= f + length acc)%nat.
Proof.
  induction f as [|f IH]; intros n acc; [simpl; lia|].
  cbn [limbs_be_fuel]. destruct (n =? 0)%N; [lia|].
  eapply Nat.le_trans; [apply IH|]. simpl. lia.
Qed.

Lemma limbs_be_spec : forall n, (n < 2 ^ 1023)%N ->
  horner 0 (limbs_be n) = n /\ Forall (fun l => (l < 2 ^ 64)%N) (limbs_be n) /\
  (length (limbs_be n) <= 16)%nat.
Proof.
  intros n Hn. unfold limbs_be.
  assert (Hsz : (N.size n <= 1023)%N).
  { destruct (N.eq_dec n 0) as [->|Hn0]; [simpl; lia|].
    rewrite N.size_log2 by exact Hn0.
    assert (N.log2 n < 1023)%N; [|lia]. apply N.log2_lt_pow2; lia. }
  set (q := (N.size n / 64)%N).
  assert (Hq : (q <= 15)%N).
  { assert (q < 16)%N; [|lia]. unfold q. apply N.div_lt_upper_bound; [discriminate|]. lia. }
  repeat split.
  - rewrite limbs_be_fuel_horner; [reflexivity|].
    eapply N.lt_le_trans; [apply pow2_gt_size|].
    apply N.pow_le_mono_r; [discriminate|].
    rewrite Nat2N.inj_succ, N2Nat.id. fold q.
    pose proof (N.div_mod' (N.size n) 64). pose proof (N.mod_lt (N.size n) 64 ltac:(discriminate)).
    fold q in H. lia.
  - apply limbs_be_fuel_small. constructor.
  - eapply Nat.le_trans; [apply limbs_be_fuel_length|]. simpl length. lia.
Qed.

(* ------------------------------------------------------------------ *)
(* accumulated relative error after k roundings *)

Definition Ek (k : nat) : R := (1 + u53) ^ k - 1.

Lemma u53_pos : 0 < u53.
Proof. unfold u53. apply Rinv_0_lt_compat. apply pow_lt. lra. Qed.

Lemma Ek_nonneg : forall k, 0 <= Ek k.
Proof.
  intro k. unfold Ek. pose proof u53_pos.
  assert (1 <= (1 + u53) ^ k) by (apply pow_R1_Rle; lra). lra.
Qed.

Lemma Ek_succ : forall k, Ek (S k) = (1 + Ek k) * (1 + u53) - 1.
Proof. intro k. unfold Ek. simpl. ring. Qed.

Lemma Ek_mono : forall j k, (j <= k)%nat -> Ek j <= Ek k.
Proof.
  intros j k H. unfold Ek. pose proof u53_pos.
  assert ((1 + u53) ^ j <= (1 + u53) ^ k) by (apply Rle_pow; [lra|exact H]). lra.
Qed.

Lemma Ek_42_small : Ek 42 <= / 2 ^ 40.
Proof. unfold Ek, u53. interval with (i_prec 100). Qed.

Lemma Ek_small : forall k, (k <= 42)%nat -> Ek k <= / 2 ^ 40.
Proof. intros k H. eapply Rle_trans; [apply Ek_mono; exact H|apply Ek_42_small]. Qed.

Lemma Ek_ge_u : forall k, (1 <= k)%nat -> u53 <= Ek k.
Proof.
  intros k H. eapply Rle_trans; [|apply (Ek_mono 1 k H)]. unfold Ek. simpl. lra.
Qed.

(* |a - x| <= u x and |x - v| <= e v  ==>  |a - v| <= ((1+e)(1+u) - 1) v *)
Lemma err_compose : forall a x v u e, 0 <= u -> 0 <= e -> 0 <= v ->
  Rabs (a - x) <= u * x -> Rabs (x - v) <= e * v ->
  Rabs (a - v) <= ((1 + e) * (1 + u) - 1) * v.
Proof.
  intros a x v u e Hu He Hv H1 H2.
  apply Rabs_le_inv' in H1. apply Rabs_le_inv' in H2. apply Rabs_le. split; nra.
Qed.

Lemma err_sum : forall a b v l c, 0 <= c ->
  Rabs (a - v) <= c * v -> Rabs (b - l) <= c * l ->
  Rabs (a + b - (v + l)) <= c * (v + l).
Proof.
  intros a b v l c Hc H1 H2.
  apply Rabs_le_inv' in H1. apply Rabs_le_inv' in H2. apply Rabs_le. split; lra.
Qed.

(* ------------------------------------------------------------------ *)
(* the limb loop of BigUint::as_f64 *)

Definition stepf (res : fl) (l : N) : fl := fl_add (fl_scale64 res) (fl_of_N l).

Definition inv (k : nat) (res : fl) (V : N) : Prop :=
  (V = 0%N /\ res = FFin false 0 0) \/
  ((0 < V)%N /\ exists m e, res = FFin false m e /\ (2 ^ 52 <= m <= 2 ^ 53)%N /\
                            Rabs (RN m * p2 e - RN V) <= Ek k * RN V).

Lemma RN_add : forall a b, RN (a + b) = RN a + RN b.
Proof. intros. unfold RN. rewrite N2Z.inj_add. apply plus_IZR. Qed.

Lemma RN_2_64 : RN (2 ^ 64) = 2 ^ 64.
Proof. unfold RN. change (Z.of_N (2 ^ 64)) with 18446744073709551616%Z. lra. Qed.

Lemma RN_2_1023 : RN (2 ^ 1023) = p2 1023.
Proof. symmetry. apply (p2_of_N 1023). Qed.

Lemma RN_ge_1 : forall a, (0 < a)%N -> 1 <= RN a.
Proof. intros a H. unfold RN. apply IZR_le. lia. Qed.

Lemma p2_m1000_small : p2 (-1000) <= / 2.
Proof.
  replace (-1000)%Z with (- (1000))%Z by lia. rewrite p2_neg.
  pose proof (p2_ge_1 999 ltac:(lia)). replace 1000%Z with (999 + 1)%Z by lia. rewrite p2_succ.
  apply Rinv_le_contravar; lra.
Qed.

Lemma step_inv : forall k res V l,
  inv k res V -> (k <= 40)%nat -> (l < 2 ^ 64)%N -> (V * 2 ^ 64 + l < 2 ^ 1023)%N ->
  inv (k + 2) (stepf res l) (V * 2 ^ 64 + l)%N.
Proof.
  intros k res V l Hinv Hk Hl Hrange.
  pose proof u53_pos as Hu. pose proof p2_m1000_small as Hsmall.
  destruct Hinv as [[HV Hres]|[HV [m [e [Hres [Hm Herr]]]]]].
  - (* nothing accumulated yet *)
    subst V res. unfold stepf.
    replace (fl_scale64 (FFin false 0 0)) with (FFin false 0 0) by reflexivity.
    simpl (0 * 2 ^ 64 + l)%N.
    destruct (N.eq_0_gt_0_cases l) as [Hl0|Hl0].
    + subst l. left. split; reflexivity.
    + right. split; [exact Hl0|].
      destruct (fl_of_N_spec l (conj Hl0 Hl)) as [[m [e [Hx [Hm He]]]] Herr].
      rewrite Hx in *. rewrite flv_pos in Herr.
      destruct (fl_add_zero_l m e Hm ltac:(lia)) as [[m2 [e2 [Hx2 [Hm2 _]]]] Herr2].
      rewrite Hx2 in *. rewrite flv_pos in Herr2.
      exists m2, e2. split; [reflexivity|]. split; [exact Hm2|].
      pose proof (RN_pos l Hl0) as Hlp.
      pose proof (err_compose (RN m2 * p2 e2) (RN m * p2 e) (RN l) u53 u53 ltac:(lra) ltac:(lra) ltac:(lra) Herr2 Herr) as Hc.
      eapply Rle_trans; [exact Hc|]. apply Rmult_le_compat_r; [lra|].
      eapply Rle_trans; [|apply (Ek_mono 2 (k + 2)); lia]. unfold Ek. simpl. lra.
  - (* V > 0 *)
    subst res. unfold stepf.
    assert (Hm0 : (0 < m)%N).
    { destruct Hm as [Hm _]. eapply N.lt_le_trans; [|exact Hm]. reflexivity. }
    pose proof (RN_ge_1 V HV) as HV1.
    pose proof (Ek_nonneg k) as Hek0. pose proof (Ek_small k ltac:(lia)) as Heks.
    assert (H240 : / 2 ^ 40 <= / 4) by (interval with (i_prec 64)).
    set (R0 := RN m * p2 e) in *.
    set (v := RN V * 2 ^ 64).
    assert (Hv64 : 2 ^ 64 <= v).
    { unfold v. assert (0 < (2:R) ^ 64) by (apply pow_lt; lra). nra. }
    assert (H264 : 1 <= (2:R) ^ 64) by (apply pow_R1_Rle; lra).
    (* range of everything: below 2^1023 *)
    assert (HVtot : v + RN l < p2 1023).
    { apply RN_lt in Hrange. rewrite RN_add, RN_mul, RN_2_64, RN_2_1023 in Hrange. exact Hrange. }
    assert (Hlr : 0 <= RN l) by (unfold RN; apply IZR_le; lia).
    pose proof (p2_pos 1023) as Hp1023.
    (* a = res * 2^64 *)
    assert (HX : Rabs (R0 * 2 ^ 64 - v) <= Ek k * v).
    { unfold v. replace (R0 * 2 ^ 64 - RN V * 2 ^ 64) with ((R0 - RN V) * 2 ^ 64) by ring.
      rewrite Rabs_mult, (Rabs_right (2 ^ 64)) by lra.
      replace (Ek k * (RN V * 2 ^ 64)) with (Ek k * RN V * 2 ^ 64) by ring.
      apply Rmult_le_compat_r; lra. }
    pose proof HX as HX'. apply Rabs_le_inv' in HX'.
    destruct (fl_scale64_spec m e Hm0) as [[ma [ea [Ha Hma]]] Herra]; fold R0.
    { nra. } { nra. }
    fold R0 in Herra. rewrite Ha in *. rewrite flv_pos in Herra.
    set (A := RN ma * p2 ea) in *.
    pose proof (err_compose A (R0 * 2 ^ 64) v u53 (Ek k) ltac:(lra) Hek0 ltac:(lra) Herra HX) as HA.
    rewrite <- Ek_succ in HA.
    pose proof (Ek_nonneg (S k)) as Hek1. pose proof (Ek_small (S k) ltac:(lia)) as Hek1s.
    pose proof HA as HA'. apply Rabs_le_inv' in HA'.
    (* b = limb as f64 *)
    assert (Hb : exists mb eb, fl_of_N l = FFin false mb eb /\ Rabs (RN mb * p2 eb - RN l) <= Ek (S k) * RN l).
    { destruct (N.eq_0_gt_0_cases l) as [Hl0|Hl0].
      - subst l. exists 0%N, 0%Z. split; [reflexivity|].
        replace (RN 0) with 0 by reflexivity. rewrite Rmult_0_l, Rminus_0_r, Rabs_R0. lra.
      - destruct (fl_of_N_spec l (conj Hl0 Hl)) as [[mb [eb [Hx [_ _]]]] Herrb].
        rewrite Hx in *. rewrite flv_pos in Herrb. exists mb, eb. split; [reflexivity|].
        eapply Rle_trans; [exact Herrb|]. apply Rmult_le_compat_r; [exact Hlr|].
        apply Ek_ge_u. lia. }
    destruct Hb as [mb [eb [Hbx Herrb]]]. rewrite Hbx.
    set (Bv := RN mb * p2 eb) in *.
    pose proof (err_sum A Bv v (RN l) (Ek (S k)) Hek1 HA Herrb) as HS.
    pose proof HS as HS'. apply Rabs_le_inv' in HS'.
    destruct (fl_add_pos_spec ma ea mb eb) as [[mr [er [Hr Hmr]]] Herrr]; fold A Bv.
    { nra. } { nra. }
    fold A Bv in Herrr. rewrite Hr in *. rewrite flv_pos in Herrr.
    right. split; [lia|]. exists mr, er. split; [reflexivity|]. split; [exact Hmr|].
    rewrite RN_add, RN_mul, RN_2_64. fold v.
    pose proof (err_compose (RN mr * p2 er) (A + Bv) (v + RN l) u53 (Ek (S k)) ltac:(lra) Hek1 ltac:(lra) Herrr HS) as Hfin.
    rewrite <- Ek_succ in Hfin. replace (k + 2)%nat with (S (S k)) by lia. exact Hfin.
Qed.

Lemma fold_inv : forall ls k res V,
  inv k res V -> (k + 2 * length ls <= 42)%nat ->
  Forall (fun l => (l < 2 ^ 64)%N) ls -> (horner V ls < 2 ^ 1023)%N ->
  inv (k + 2 * length ls) (fold_left stepf ls res) (horner V ls).
Proof.
  induction ls as [|l ls IH]; intros k res V Hinv Hk Hall Hrange.
  - simpl. replace (k + 0)%nat with k by lia. exact Hinv.
  - inversion Hall as [|? ? Hl Hall']; subst.
    cbn [fold_left]. rewrite horner_cons in *. cbn [length] in *.
    replace (k + 2 * S (length ls))%nat with ((k + 2) + 2 * length ls)%nat by lia.
    apply IH; try assumption; try lia.
    apply step_inv; try assumption; try lia.
    eapply N.le_lt_trans; [apply horner_ge|exact Hrange].
Qed.

(* BigUint::as_f64 for any number of limbs below 2^1023 *)
Theorem as_f64_multi : forall n, (0 < n < 2 ^ 1023)%N ->
  exists m e, as_f64 n = FFin false m e /\ (2 ^ 52 <= m <= 2 ^ 53)%N /\
              Rabs (RN m * p2 e - RN n) <= Ek 32 * RN n.
Proof.
  intros n [Hn0 Hn]. destruct (limbs_be_spec n Hn) as [Hh [Hall Hlen]].
  assert (Hi : inv (0 + 2 * length (limbs_be n)) (fold_left stepf (limbs_be n) (FFin false 0 0)) (horner 0 (limbs_be n))).
  { apply fold_inv; [left; split; reflexivity | lia | exact Hall | rewrite Hh; exact Hn]. }
  rewrite Hh in Hi. unfold as_f64, fl_zero. fold stepf.
  change (fun (res : fl) (l : N) => fl_add (fl_scale64 res) (fl_of_N l)) with stepf.
  destruct Hi as [[Hc _]|[_ [m [e [Hr [Hm Herr]]]]]]; [lia|].
  exists m, e. split; [exact Hr|]. split; [exact Hm|].
  eapply Rle_trans; [exact Herr|]. apply Rmult_le_compat_r.
  - unfold RN. apply IZR_le. lia.
  - apply Ek_mono. lia.
Qed.

Lemma Ek_32_small : Ek 32 <= 33 * u53.
Proof. unfold Ek, u53. interval with (i_prec 100). Qed.

(* BigRat::into_f64 for operands below 2^1023 and a quotient of ordinary
   size: within 2^-46 relative of the rational *)
Theorem into_f64_multi_accurate : forall q : Q,
  (Qnum q <> 0)%Z ->
  (Z.abs (Qnum (Qred q)) < 2 ^ 1023)%Z -> (Z.pos (Qden (Qred q)) < 2 ^ 1023)%Z ->
  p2 (-999) <= Rabs (Q2R q) <= p2 1000 ->
  exists s m e, into_f64 q = FFin s m e /\
    Rabs (flv (into_f64 q) - Q2R q) <= / 2 ^ 46 * Rabs (Q2R q).
Proof.
  intros q Hq0 Hn Hd Hmag. unfold into_f64.
  destruct (Z.eqb_spec (Qnum q) 0) as [Hc|_]; [contradiction|].
  set (r := Qred q) in *.
  assert (Hqr : Q2R q = Q2R r) by (symmetry; apply Qeq_eqR, Qred_correct).
  assert (Hrn0 : (Qnum r <> 0)%Z).
  { intro Hc. pose proof (Qred_correct q) as H. fold r in H. unfold Qeq in H. rewrite Hc in H. lia. }
  set (n := q_num_abs r). set (d := q_den r).
  assert (Hnr : (0 < n < 2 ^ 1023)%N).
  { unfold n, q_num_abs. split; [lia|]. apply N2Z.inj_lt. rewrite N2Z.inj_abs_N.
    change (Z.of_N (2 ^ 1023)) with (2 ^ 1023)%Z. exact Hn. }
  assert (Hdr : (0 < d < 2 ^ 1023)%N).
  { unfold d, q_den. split; [lia|]. apply N2Z.inj_lt. simpl Z.of_N at 1.
    change (Z.of_N (2 ^ 1023)) with (2 ^ 1023)%Z. exact Hd. }
  destruct (as_f64_multi n Hnr) as [m1 [e1 [Hx [Hm1 Hex]]]].
  destruct (as_f64_multi d Hdr) as [m2 [e2 [Hy [Hm2 Hey]]]].
  pose proof (RN_pos n ltac:(lia)) as Hnp. pose proof (RN_pos d ltac:(lia)) as Hdp.
  pose proof Ek_32_small as HE. pose proof u53_pos as Hu.
  assert (Hu' : u53 <= / 2 ^ 50) by (unfold u53; interval with (i_prec 64)).
  set (X := RN m1 * p2 e1) in *. set (Y := RN m2 * p2 e2) in *.
  assert (Hqv : Rabs (Q2R r) = RN n / RN d).
  { unfold Q2R, n, d, q_num_abs, q_den, RN. rewrite N2Z.inj_abs_N.
    unfold Rdiv. rewrite Rabs_mult, <- abs_IZR. f_equal.
    rewrite Rabs_right; [reflexivity|]. left. apply Rinv_0_lt_compat. apply IZR_lt. lia. }
  rewrite Hqr, Hqv in Hmag.
  set (fa := X / RN n). set (fb := Y / RN d).
  assert (Hfa : 1 - 33 * u53 <= fa <= 1 + 33 * u53).
  { apply rel_bounds; [exact Hnp|]. eapply Rle_trans; [exact Hex|]. apply Rmult_le_compat_r; lra. }
  assert (Hfb : 1 - 33 * u53 <= fb <= 1 + 33 * u53).
  { apply rel_bounds; [exact Hdp|]. eapply Rle_trans; [exact Hey|]. apply Rmult_le_compat_r; lra. }
  assert (HXp : 0 < X) by (unfold fa in Hfa; assert (0 < X / RN n) by lra;
                           replace X with (X / RN n * RN n) by (field; lra); apply Rmult_lt_0_compat; lra).
  assert (HYp : 0 < Y) by (unfold fb in Hfb; assert (0 < Y / RN d) by lra;
                           replace Y with (Y / RN d * RN d) by (field; lra); apply Rmult_lt_0_compat; lra).
  assert (HXY : X / Y = RN n / RN d * (fa / fb)) by (unfold fa, fb; field; repeat split; lra).
  assert (Hratio : 1 / 2 <= fa / fb <= 3 / 2).
  { unfold u53 in *. split; interval with (i_prec 100). }
  assert (Htpos : 0 < RN n / RN d) by (apply Rdiv_lt_0_compat; assumption).
  assert (Hp999 : p2 (-999) = 2 * p2 (-1000)) by (replace (-999)%Z with (-1000 + 1)%Z by lia; apply p2_succ).
  assert (Hp1000 : p2 1023 >= p2 1000 * 2) by (pose proof (p2_le 1001 1023 ltac:(lia)); replace 1001%Z with (1000 + 1)%Z in H by lia; rewrite p2_succ in H; lra).
  assert (Hm1p : (0 < m1)%N) by (destruct Hm1 as [H _]; eapply N.lt_le_trans; [|exact H]; reflexivity).
  assert (Hm2p : (0 < m2)%N) by (destruct Hm2 as [H _]; eapply N.lt_le_trans; [|exact H]; reflexivity).
  pose proof (p2_pos (-1000)). pose proof (p2_pos 1000).
  rewrite Hx, Hy.
  destruct (fl_div_pos_spec m1 e1 m2 e2 Hm1p Hm2p) as [[m [e [Hdiv _]]] Herr]; fold X Y.
  { rewrite HXY. nra. } { rewrite HXY. nra. }
  fold X Y in Herr. rewrite Hdiv in *. rewrite flv_pos in Herr.
  set (P := RN m * p2 e) in *.
  set (fd := P / (X / Y)).
  assert (HXYp : 0 < X / Y) by (apply Rdiv_lt_0_compat; assumption).
  assert (Hfd : 1 - u53 <= fd <= 1 + u53) by (apply rel_bounds; assumption).
  assert (HP : P = RN n / RN d * (fa / fb * fd)).
  { unfold fa, fb, fd. field. repeat split; lra. }
  assert (Hfac : Rabs (fa / fb * fd - 1) <= / 2 ^ 46).
  { unfold u53 in *. interval with (i_prec 100). }
  assert (Hgoal : Rabs (P - RN n / RN d) <= / 2 ^ 46 * (RN n / RN d)).
  { rewrite HP. replace (RN n / RN d * (fa / fb * fd) - RN n / RN d) with (RN n / RN d * (fa / fb * fd - 1)) by ring.
    rewrite Rabs_mult, (Rabs_right (RN n / RN d)) by lra.
    rewrite Rmult_comm. apply Rmult_le_compat_r; lra. }
  rewrite Hqr, Hqv.
  destruct (q_neg r) eqn:Hneg.
  - exists (negb false), m, e. split; [reflexivity|].
    assert (Hr : Q2R r = - (RN n / RN d)).
    { unfold q_neg in Hneg. apply Z.ltb_lt in Hneg.
      assert (Hrneg : Q2R r < 0).
      { unfold Q2R. assert (IZR (Qnum r) < 0) by (apply IZR_lt; lia).
        assert (0 < / IZR (Z.pos (Qden r))) by (apply Rinv_0_lt_compat, IZR_lt; lia). nra. }
      rewrite <- Hqv. rewrite Rabs_left by exact Hrneg. lra. }
    rewrite Hr. cbn [fl_neg flv]. fold P.
    replace ((if negb false then -1 else 1) * P - - (RN n / RN d)) with (- (P - RN n / RN d)) by (simpl; ring).
    rewrite Rabs_Ropp. exact Hgoal.
  - exists false, m, e. split; [reflexivity|].
    assert (Hr : Q2R r = RN n / RN d).
    { unfold q_neg in Hneg. apply Z.ltb_ge in Hneg.
      rewrite <- Hqv. rewrite Rabs_right; [reflexivity|].
      unfold Q2R. apply Rle_ge. apply Rmult_le_pos; [apply IZR_le; lia|].
      left. apply Rinv_0_lt_compat. apply IZR_lt. lia. }
    rewrite Hr, flv_pos. fold P. exact Hgoal.
Qed.
