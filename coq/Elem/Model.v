(* C15 -- model of the elementary-function layer of fend:
     core/src/num/real.rs    Real = Simple | Pi pattern, approximate (the
                             rational used for pi), sin (mod-12 table), cos,
                             the f64-bridge wrappers, pow short-cuts
     core/src/num/bigrat.rs  sin asin acos atan sinh cosh tanh asinh acosh
                             atanh log2 ln log10 exp pow root_n iter_root_n
     core/src/num/biguint.rs root_n (integer bisection)
     core/src/ast.rs         the literal used for e
     core/src/units/builtin.rs  angle units as multiples of pi (degree =
                             1/360 circle, circle = 2 pi radian, ...)
   Executable Gallina only, over Coq's Q (values; fend's BigRat is an
   unnormalised sign/num/den triple whose *value* is what every function
   below depends on, except log2 which reads num and den as stored -- Q keeps
   them as stored).  No proofs and no Reals here. *)
From FendV Require Import Base.Prelude Elem.Bridge.
From Coq Require Import QArith.
Open Scope N_scope.

(* ------------------------------------------------------------------ *)
(* small rational helpers *)

Definition qeq (a b : Q) : bool := Qeq_bool a b.
Definition qlt (a b : Q) : bool := match Qcompare a b with Lt => true | _ => false end.
Definition qle (a b : Q) : bool := match Qcompare a b with Gt => false | _ => true end.
Definition Qof (n : N) : Q := inject_Z (Z.of_N n).

Record Exact (A : Type) := mkEx { exv : A; exb : bool }.
Arguments mkEx {A} _ _.
Arguments exv {A} _.
Arguments exb {A} _.

Definition ex_map {T U} (f : T -> U) (x : Exact T) : Exact U := mkEx (f (exv x)) (exb x).

(* usize = u64 on the platforms the check runs on *)
Definition usize_limit : N := 2 ^ 64.

(* a BigRat that is a natural number (any size): not negative, and after
   simplify (divide by the gcd; a no-op when the denominator is 1) the
   denominator is 1.  This is the acceptance test shared by
   BigRat::try_as_usize (bigrat.rs:152) and BigRat::modulo (bigrat.rs:458). *)
Definition rat_as_nat (q : Q) : option N :=
  if (Qnum q <? 0)%Z then None
  else
    let n := Z.to_N (Qnum q) in
    let d := Npos (Qden q) in
    if d =? 1 then Some n
    else
      let g := N.gcd n d in
      if negb (d / g =? 1) then None else Some (n / g).

(* BigRat::try_as_usize: ... then BigUint::try_as_usize, which (since fix
   commit 2c2d128) accepts exactly the values below 2^64 *)
Definition rat_try_as_usize (q : Q) : option N :=
  match rat_as_nat q with
  | Some n => if n <? usize_limit then Some n else None
  | None => None
  end.

(* ------------------------------------------------------------------ *)
(* BigUint::root_n (biguint.rs:231): integer bisection; (root, exact?)   *)

Fixpoint root_loop (fuel : nat) (x n low high : N) : res (N * bool) :=
  match fuel with
  | O => Err EOutOfFuel
  | S f =>
    let guess := (low + high) / 2 in
    let r := guess ^ n in
    match r ?= x with
    | Eq => Ok (guess, true)
    | Gt => if guess - low <=? 1 then Ok (low, false) else root_loop f x n low guess
    | Lt => if high - guess <=? 1 then Ok (guess, false) else root_loop f x n guess high
    end
  end.

Definition biguint_root_n (x n : N) : res (N * bool) :=
  if (x =? 0) || (x =? 1) || (n =? 1) then Ok (x, true)
  else if usize_limit <=? n then Err EOutOfRange
  else if n =? 0 then Panic 244                    (* bits() / n.get(0): division by zero *)
  else
    let max_bits := N.size x / n + 1 in
    root_loop (N.to_nat (max_bits + 4)) x n 1 (2 ^ (max_bits + 1)).

(* BigRat::iter_root_n (bigrat.rs:963): 50 bisection steps on rationals *)
Fixpoint iter_root_loop (k : nat) (low high val : Q) (n : N) : Q :=
  match k with
  | O => Qred ((low + high) / 2)%Q
  | S k' =>
    let guess := Qred ((low + high) / 2)%Q in
    if qlt (Qpower guess (Z.of_N n)) val
    then iter_root_loop k' guess high val n
    else iter_root_loop k' low guess val n
  end.

Definition iter_root_n (low val : Q) (n : N) : Q :=
  iter_root_loop 50 low (low + 1)%Q val n.

(* BigRat::root_n (bigrat.rs:996); n is the (simplified, integer, non-negative)
   root index *)
Definition rat_root_n (x : Q) (n : N) : res (Exact Q) :=
  if (Qnum x <? 0)%Z then Err ENegative                 (* RootsOfNegativeNumbers *)
  else if (Qnum x =? 0)%Z then Ok (mkEx x true)
  else
    do nr <- biguint_root_n (q_num_abs x) n;
    do dr <- biguint_root_n (q_den x) n;
    let '(nv, ne) := nr in
    let '(dv, de) := dr in
    if ne && de then Ok (mkEx (mkQ false nv dv) true)
    else
      let num_rat := if ne then Qof nv else iter_root_n (Qof nv) (Qof (q_num_abs x)) n in
      let den_rat := if de then Qof dv else iter_root_n (Qof dv) (Qof (q_den x)) n in
      Ok (mkEx (num_rat / den_rat)%Q false).

(* BigUint::pow (biguint.rs:217) *)
Definition biguint_pow (a b : N) : res N :=
  if (a =? 0) && (b =? 0) then Err EZeroPowZero
  else if b =? 0 then Ok 1
  else if usize_limit <=? b then Err EExpTooLarge
  else Ok (a ^ b).

(* BigRat::pow (bigrat.rs:923), exponent already non-negative *)
Definition rat_pow_nonneg (a b : Q) : res (Exact Q) :=
  let an := q_num_abs a in
  let bn := q_num_abs b in
  let result_neg := q_neg a && negb (N.even bn) in
  do pn <- biguint_pow an bn;
  do pd <- biguint_pow (q_den a) bn;
  let pow_res := mkQ result_neg pn pd in
  if Pos.eqb (Qden b) 1 then Ok (mkEx pow_res true)
  else rat_root_n pow_res (q_den b).

Definition rat_pow (a0 b0 : Q) : res (Exact Q) :=
  let a := Qred a0 in
  let b := Qred b0 in
  if negb (Qnum a =? 0)%Z && q_neg a && negb (Pos.eqb (Qden b) 1) then Err ENegative
  else if q_neg b then
    do inv <- rat_pow_nonneg a (Qopp b);
    if (Qnum (exv inv) =? 0)%Z then Err EDivByZero
    else Ok (mkEx (1 / exv inv)%Q (exb inv))
  else rat_pow_nonneg a b.

(* ------------------------------------------------------------------ *)
(* Real::approximate (real.rs:95): two Chudnovsky terms, the square root
   of 640320^3 (and ^9) by root_n / iter_root_n *)

Fixpoint factN (n : nat) : N :=
  match n with O => 1 | S k => N.of_nat n * factN k end.

Definition chud_term (k : N) : res Q :=
  let kq := Qof k in
  let sign : Q := if N.odd k then (-1 # 1)%Q else 1%Q in
  let t1 := (sign * Qof (factN (N.to_nat (6 * k))))%Q in
  let t2 := (t1 * (Qof 545140134 * kq + Qof 13591409))%Q in
  let t3 := (t2 / Qof (factN (N.to_nat (3 * k))))%Q in
  do kf3 <- rat_pow (Qof (factN (N.to_nat k))) (Qof 3);
  let t4 := (t3 / exv kf3)%Q in
  do p <- rat_pow (Qof 640320) (Qof 3 * kq + (3 # 2))%Q;
  Ok (t4 / exv p)%Q.

Definition pi_model_res : res Q :=
  do t0 <- chud_term 0;
  do t1 <- chud_term 1;
  let s := (0 + t0 + t1)%Q in
  do r <- rat_pow (s * Qof 12)%Q (-1 # 1)%Q;
  Ok (Qred (exv r)).

Definition pi_model : Q := match pi_model_res with Ok q => q | _ => 0%Q end.

(* ast.rs:771  "e" => "approx. 2.718281828459045235" *)
Definition e_model : Q := (2718281828459045235 # 1000000000000000000)%Q.

(* ------------------------------------------------------------------ *)
(* Real *)

Inductive real := RSimple (q : Q) | RPi (q : Q).

Definition real_neg (r : real) : real :=
  match r with RSimple q => RSimple (Qopp q) | RPi q => RPi (Qopp q) end.

Definition approximate (r : real) : Q :=
  match r with RSimple q => q | RPi n => (n * pi_model)%Q end.

Inductive fname :=
| Fsin | Fcos | Fasin | Facos | Fatan | Fsinh | Fcosh | Ftanh
| Fasinh | Facosh | Fatanh | Flog2 | Fln | Flog10 | Fexp.

Definition oracles := fname -> oracle.

(* f64 constants LOG2_E and LOG2_10 *)
Definition log2_e_bits : N := 4609176140021203710.    (* 0x3FF71547652B82FE *)
Definition log2_10_bits : N := 4614662735865160561.   (* 0x400A934F0979A371 *)

Definition rat_log2 (Fo : oracles) (q : Q) : res Q :=
  if qle q 0 then Err EOutOfRange
  else from_f64 (fl_sub (biguint_log2 (Fo Flog2) (q_num_abs q))
                        (biguint_log2 (Fo Flog2) (q_den q))).

(* BigRat::{sin .. exp} (bigrat.rs:221-321, 984) *)
Definition rat_fn (Fo : oracles) (f : fname) (q : Q) : res (Exact Q) :=
  let br := (do v <- bridge (Fo f) q; Ok (mkEx v false)) in
  match f with
  | Fsin => if qeq q 0 then Ok (mkEx 0%Q true) else br
  | Fcos => br                                  (* no BigRat::cos; see real_cos *)
  | Fasin | Facos => if qlt 1 q || qlt q (-1 # 1)%Q then Err EOutOfRange else br
  | Fatan | Fsinh | Fcosh | Ftanh | Fasinh => br
  | Facosh => if qlt q 1 then Err EOutOfRange else br
  | Fatanh => if qle 1 q || qle q (-1 # 1)%Q then Err EOutOfRange else br
  | Flog2 => do l <- rat_log2 Fo q; Ok (mkEx l false)
  | Fln => if qeq q 1 then Ok (mkEx 0%Q true)
           else do l <- rat_log2 Fo q;
                do c <- from_f64 (fl_of_bits log2_e_bits);
                Ok (mkEx (l / c)%Q false)
  | Flog10 => do l <- rat_log2 Fo q;
              do c <- from_f64 (fl_of_bits log2_10_bits);
              Ok (mkEx (l / c)%Q false)
  | Fexp => if (Qnum q =? 0)%Z then Ok (mkEx 1%Q true) else br
  end.

(* the f64 bit patterns on which rat_fn consults libm *)
Definition rat_fn_queries (f : fname) (q : Q) : list N :=
  match f with
  | Flog2 | Fln | Flog10 =>
    if qle q 0 then [] else [biguint_log2_query (q_num_abs q); biguint_log2_query (q_den q)]
  | _ => [fl_bits (into_f64 q)]
  end.

(* the table of Real::sin (real.rs:200-212) on an integer k = 6n (or on its
   residue mod 12: the conditions only look at k mod 6 and k mod 12) *)
Definition sin_table_of (k : N) : option Q :=
  if k mod 6 =? 0 then Some 0%Q
  else if k mod 12 =? 3 then Some 1%Q
  else if k mod 12 =? 9 then Some (-1 # 1)%Q
  else if (k mod 12 =? 1) || (k mod 12 =? 5) then Some (1 # 2)%Q
  else if (k mod 12 =? 7) || (k mod 12 =? 11) then Some (-1 # 2)%Q
  else None.

(* Real::sin on a non-negative multiple n of pi (real.rs:190-198, since fix
   commit 06c1b45): (6n).modulo(12) -- defined iff 6n is a natural number of
   any size -- then try_as_usize of the residue, then the table *)
Definition sin_pi_table (n : Q) : option Q :=
  match rat_as_nat (n * 6)%Q with
  | Some k => match rat_try_as_usize (inject_Z (Z.of_N (k mod 12))) with
              | Some r => sin_table_of r
              | None => None
              end
  | None => None
  end.

(* before that commit: try_as_usize of 6n itself, so 6n >= 2^64 was not looked up *)
Definition sin_pi_table_old (n : Q) : option Q :=
  match rat_try_as_usize (n * 6)%Q with
  | Some k => sin_table_of k
  | None => None
  end.

Definition real_sin_with (tbl : Q -> option Q) (Fo : oracles) (r : real) : res (Exact real) :=
  match r with
  | RSimple s => do v <- rat_fn Fo Fsin s; Ok (ex_map RSimple v)
  | RPi n =>
    let neg := qlt n 0 in
    let n' := if neg then Qopp n else n in
    match tbl n' with
    | Some v => Ok (mkEx (RSimple (if neg then Qopp v else v)) true)
    | None =>
      do v <- rat_fn Fo Fsin (n' * pi_model)%Q;
      Ok (ex_map (fun q => RSimple (if neg then Qopp q else q)) v)
    end
  end.

Definition real_sin : oracles -> real -> res (Exact real) := real_sin_with sin_pi_table.
Definition real_sin_old : oracles -> real -> res (Exact real) := real_sin_with sin_pi_table_old.

(* Real::cos (real.rs:222): sin (x + pi/2) through Exact<Real>::add *)
Definition real_is_zero (r : real) : bool :=
  match r with RSimple q | RPi q => (Qnum q =? 0)%Z end.

(* BigRat::add_internal (bigrat.rs:385): same denominator -> add the
   numerators; otherwise over the least common multiple.  Value a + b. *)
Definition rat_add (a b : Q) : Q :=
  let da := Zpos (Qden a) in
  let db := Zpos (Qden b) in
  if Pos.eqb (Qden a) (Qden b) then Qmake (Qnum a + Qnum b) (Qden a)
  else
    let g := Z.gcd da db in
    Qmake (Qnum a * db / g + Qnum b * da / g) (Z.to_pos (da * db / g)).

(* x + pi/2 and the exactness flag of that sum (Exact<Real>::add: an exact
   zero returns the other operand; Pi + Pi stays exact; a rational plus a
   multiple of pi is approximated and marked so) *)
Definition cos_shift_ex (r : real) : real * bool :=
  if real_is_zero r then (RPi (1 # 2)%Q, true)
  else match r with
       | RSimple a => (RSimple (rat_add a ((1 # 2) * pi_model)%Q), false)
       | RPi a => (RPi (rat_add a (1 # 2)%Q), true)
       end.

Definition cos_shift (r : real) : real := fst (cos_shift_ex r).

(* since fix commit bd3b9a9 the flag of the sum is kept (`combine`) *)
Definition real_cos (Fo : oracles) (r : real) : res (Exact real) :=
  do v <- real_sin Fo (cos_shift r);
  Ok (mkEx (exv v) (exb v && snd (cos_shift_ex r))).

(* before: the flag of the sum was dropped, and the table was the old one *)
Definition real_cos_old (Fo : oracles) (r : real) : res (Exact real) :=
  real_sin_old Fo (cos_shift r).

(* Complex::tan on a real argument (complex.rs:391): sin / cos through
   Exact<Complex>::div; both of its paths give the value sin/cos, flag
   "both exact", and DivideByZero when the cosine is zero *)
Definition real_tan (Fo : oracles) (r : real) : res (Exact real) :=
  do s <- real_sin Fo r;
  do c <- real_cos Fo r;
  match exv s, exv c with
  | RSimple sv, RSimple cv =>
    if (Qnum cv =? 0)%Z then Err EDivByZero
    else Ok (mkEx (RSimple (sv / cv)%Q) (exb s && exb c))
  | _, _ => Panic 391                                   (* sin never returns a Pi pattern *)
  end.

(* all the other Real functions: approximate, then the BigRat function *)
Definition real_fn (Fo : oracles) (f : fname) (r : real) : res (Exact real) :=
  match f with
  | Fsin => real_sin Fo r
  | Fcos => real_cos Fo r
  | Fln | Fexp => do v <- rat_fn Fo f (approximate r); Ok (ex_map RSimple v)
  | _ => do v <- rat_fn Fo f (approximate r); Ok (mkEx (RSimple (exv v)) false)
  end.

(* which libm function, and on which f64 inputs, real_fn consults *)
Definition libm_of (f : fname) : fname :=
  match f with Fcos => Fsin | Fln | Flog10 => Flog2 | g => g end.

Definition real_fn_queries (f : fname) (r : real) : list N :=
  match f with
  | Fsin | Fcos =>
    let r' := match f with Fcos => cos_shift r | _ => r end in
    match r' with
    | RSimple s => if qeq s 0 then [] else [fl_bits (into_f64 s)]
    | RPi n =>
      let n' := if qlt n 0 then Qopp n else n in
      match sin_pi_table n' with
      | Some _ => []
      | None => let a := (n' * pi_model)%Q in if qeq a 0 then [] else [fl_bits (into_f64 a)]
      end
    end
  | _ => rat_fn_queries f (approximate r)
  end.

(* with Fcos routed to the sin oracle, as the code does *)
Definition route (Fo : oracles) : oracles := fun f => Fo (libm_of f).

(* Real::pow (real.rs:366) *)
Definition is_simple_one (r : real) : bool :=
  match r with RSimple n => qeq n 1 | RPi _ => false end.

Definition is_simple_zero (r : real) : bool :=
  match r with RSimple n => qeq n 0 | RPi _ => false end.

Definition real_pow_old (a b : real) : res (Exact real) :=
  if is_simple_one b then Ok (mkEx a true)                     (* x^1 == x *)
  else if is_simple_one a then Ok (mkEx (RSimple 1%Q) true)    (* 1^x == 1 *)
  else
    match a, b with
    | RSimple x, RSimple y => do v <- rat_pow x y; Ok (ex_map RSimple v)
    | _, _ => do v <- rat_pow (approximate a) (approximate b);
              Ok (mkEx (RSimple (exv v)) false)
    end.

(* since fix commit d3c0150: x^0 == 1 for x != 0, whatever the pattern *)
Definition real_pow (a b : real) : res (Exact real) :=
  if is_simple_one b then Ok (mkEx a true)
  else if is_simple_zero b && negb (real_is_zero a) then Ok (mkEx (RSimple 1%Q) true)
  else real_pow_old a b.

(* ------------------------------------------------------------------ *)
(* Angle units (units/builtin.rs:256-282), resolved to multiples of pi by
   the exact Pi-pattern arithmetic of Exact<Real>::mul *)

Inductive angle_unit :=
| URadian | UCircle | UDegree | UArcmin | UArcsec | URightangle | UGradian
| UQuadrant | UQuintant | USextant | UZodiacSign | UMilliarcsec.

Definition unit_in_pi (u : angle_unit) : option Q :=
  match u with
  | URadian => None                       (* 1: not a multiple of pi *)
  | UCircle => Some 2%Q
  | UDegree => Some (2 * (1 # 360))%Q
  | UArcmin => Some (2 * (1 # 360) * (1 # 60))%Q
  | UArcsec => Some (2 * (1 # 360) * (1 # 60) * (1 # 60))%Q
  | URightangle => Some (2 * (1 # 360) * 90)%Q
  | UGradian => Some (2 * (1 # 360) * 90 * (1 # 100))%Q
  | UQuadrant => Some (2 * (1 # 4))%Q
  | UQuintant => Some (2 * (1 # 5))%Q
  | USextant => Some (2 * (1 # 6))%Q
  | UZodiacSign => Some (2 * (1 # 12))%Q
  | UMilliarcsec => Some (2 * (1 # 360) * (1 # 60) * (1 # 60) * (1 # 1000))%Q
  end.

Definition angle_to_rad (u : angle_unit) (x : Q) : real :=
  match unit_in_pi u with
  | None => RSimple x
  | Some s => RPi (x * s)%Q
  end.

(* ------------------------------------------------------------------ *)
(* classifiers of the known defect classes (known_findings.d/C15.json) *)

(* the libm result does not fit the saturating cast of from_f64 *)
Definition known_bridge_saturates (out_bits : N) : bool := fl_saturates (fl_of_bits out_bits).

(* the simplified numerator or denominator does not fit f64 (as_f64 = inf):
   into_f64 is inf, 0 or NaN whatever the quotient is *)
Definition known_into_f64_overflow (q : Q) : bool :=
  let r := Qred q in
  (1024 <? N.size (q_num_abs r)) || (1024 <? N.size (q_den r)).

(* a multiple of pi/6 that Real::sin does not look up because 6n, although a
   natural number, fails try_as_usize (it does not fit usize) *)
Definition known_big_pi_multiple (n : Q) : bool :=
  let a := if qlt n 0 then Qopp n else n in
  let r := Qred (a * 6)%Q in
  Pos.eqb (Qden r) 1 &&
  match rat_try_as_usize (a * 6)%Q with Some _ => false | None => true end.

(* the argument sits so close to a singular point of the function that the
   53-bit rounding of the argument alone exceeds the 1e-9 budget:
   asin/acos within 1e-12 of +-1 (not at it), acosh within 1e-12 above 1,
   atanh within 1e-6 of +-1, tan within 1e-3 of a pole (poles located with
   pi_model) *)
Definition qabs (q : Q) : Q := if qlt q 0 then Qopp q else q.

Definition q_floor (q : Q) : Z := (Qnum q / Zpos (Qden q))%Z.

Definition tan_pole_distance (q : Q) : Q :=
  let t := (q / pi_model - (1 # 2))%Q in
  let fr := (t - inject_Z (q_floor t))%Q in            (* in [0,1) *)
  let d := if qlt (1 # 2) fr then (1 - fr)%Q else fr in
  (d * pi_model)%Q.

Definition known_ill_conditioned (f : fname) (q : Q) : bool :=
  let a := qabs q in
  match f with
  | Fasin | Facos => qlt a 1 && qlt (1 - a)%Q (1 # 1000000000000)%Q
  | Facosh => qlt 1 q && qlt (q - 1)%Q (1 # 1000000000000)%Q
  | Fatanh => qlt a 1 && qlt (1 - a)%Q (1 # 1000000)%Q
  | _ => false
  end.

Definition known_tan_near_pole (q : Q) : bool := qlt (tan_pole_distance q) (1 # 1000)%Q.
