(* C15 -- angle units: a finite kernel check over the regenerated unit table
   (coq/Units/Generated/UnitTable.v, written by tools/gen_tables.py from the
   resolver of the fend tree under test): every angle unit name resolves to
   exactly one of that unit, is dimensionless like the radian, and reduces to
   radians with exactly the factor the C15 model uses (Model.unit_in_pi):
   degree = pi/180, arcmin = pi/10800, arcsec = pi/648000, right angle = pi/2,
   gradian = pi/200, circle = turn = revolution = 2 pi, radian = 1.
   A typo in one of those table entries breaks this obligation. *)
From FendV Require Import Base.Prelude Elem.Bridge Elem.Model.
From FendV Require Units.Defs Units.Lookup Units.Generated.UnitTable.
From Coq Require Import QArith.
Open Scope N_scope.

Module U := FendV.Units.Defs.
Module UL := FendV.Units.Lookup.
Module UT := FendV.Units.Generated.UnitTable.

Fixpoint find_name {A} (l : list (U.str * A)) (n : U.str) : option A :=
  match l with
  | [] => None
  | (k, v) :: r => if U.str_eqb k n then Some v else find_name r n
  end.

Definition expected_scale (u : angle_unit) : U.real :=
  match unit_in_pi u with None => U.Simple 1%Q | Some s => U.Pi s end.

Definition real_same (a b : U.real) : bool :=
  match a, b with
  | U.Simple x, U.Simple y => Qeq_bool x y
  | U.Pi x, U.Pi y => Qeq_bool x y
  | _, _ => false
  end.

Definition is_nil {A} (l : list A) : bool := match l with [] => true | _ => false end.

(* the table entry of name n says: 1 n, exact, a single unit with exponent 1,
   no base units, scale = the expected multiple of pi *)
Definition angle_entry_ok (n : U.str) (u : angle_unit) : bool :=
  match find_name UT.gen_names n with
  | Some (UL.LOk (v, Some (nu, _))) =>
    real_same (U.v_val v) (U.Simple 1%Q) && U.v_exact v &&
    match U.v_units v with
    | [ue] => Qeq_bool (U.ue_exp ue) 1%Q && real_same (U.nu_scale (U.ue_unit ue)) (expected_scale u)
    | _ => false
    end &&
    is_nil (U.nu_base nu) && real_same (U.nu_scale nu) (expected_scale u)
  | _ => false
  end.

Definition angle_names : list (U.str * angle_unit) :=
  [ (B"radian", URadian); (B"radians", URadian); (B"rad", URadian);
    (B"circle", UCircle); (B"circles", UCircle); (B"turn", UCircle); (B"turns", UCircle);
    (B"revolution", UCircle); (B"revolutions", UCircle);
    (B"degree", UDegree); (B"degrees", UDegree); (B"deg", UDegree); (B"degs", UDegree);
    ([176], UDegree); (B"arcdeg", UDegree); (B"arcdegs", UDegree);
    (B"arcmin", UArcmin); (B"arcmins", UArcmin); (B"arcminute", UArcmin); (B"arcminutes", UArcmin);
    (B"arcsec", UArcsec); (B"arcsecs", UArcsec); (B"arcsecond", UArcsec); (B"arcseconds", UArcsec);
    (B"rightangle", URightangle); (B"rightangles", URightangle);
    (B"gradian", UGradian); (B"gradians", UGradian); (B"gon", UGradian); (B"gons", UGradian);
    (B"grad", UGradian);
    (B"quadrant", UQuadrant); (B"quadrants", UQuadrant); (B"quintant", UQuintant); (B"quintants", UQuintant);
    (B"sextant", USextant); (B"sextants", USextant); (B"zodiac_sign", UZodiacSign); (B"zodiac_signs", UZodiacSign);
    (B"rev", UCircle); (B"revs", UCircle); (B"mas", UMilliarcsec) ].

Theorem angle_table_ok :
  forallb (fun p => angle_entry_ok (fst p) (snd p)) angle_names = true.
Proof. vm_compute. reflexivity. Qed.

(* every definition of the ANGLES group of units/builtin.rs (group 9 of the
   dumped ALL_UNIT_DEFS) is covered: its singular and, when present, its plural
   are among the checked names *)
Definition name_checked (n : U.str) : bool :=
  is_nil n || existsb (fun p => U.str_eqb (fst p) n) angle_names.

(* the group that contains the definition of the radian *)
Definition angles_group : N :=
  match find (fun d : N * U.rawdef => match snd d with (sing, _, _) => U.str_eqb sing (B"radian") end) UT.gen_defs with
  | Some d => fst d
  | None => 0
  end.

Definition def_covered (d : N * U.rawdef) : bool :=
  negb (fst d =? angles_group) ||
  match snd d with (sing, plur, _) => name_checked sing && name_checked plur end.

Theorem angle_table_complete :
  forallb def_covered UT.gen_defs = true /\
  existsb (fun d => fst d =? angles_group) UT.gen_defs = true.
Proof. vm_compute. split; reflexivity. Qed.

(* the documented factors, spelled out *)
Lemma angle_factors_documented :
  forallb (fun p => real_same (expected_scale (fst p)) (snd p))
    [ (URadian, U.Simple 1%Q); (UCircle, U.Pi 2%Q); (UDegree, U.Pi (1 # 180)%Q);
      (UArcmin, U.Pi (1 # 10800)%Q); (UArcsec, U.Pi (1 # 648000)%Q);
      (URightangle, U.Pi (1 # 2)%Q); (UGradian, U.Pi (1 # 200)%Q);
      (UQuadrant, U.Pi (1 # 2)%Q); (UQuintant, U.Pi (2 # 5)%Q); (USextant, U.Pi (1 # 3)%Q);
      (UZodiacSign, U.Pi (1 # 6)%Q); (UMilliarcsec, U.Pi (1 # 648000000)%Q) ] = true.
Proof. vm_compute. reflexivity. Qed.
