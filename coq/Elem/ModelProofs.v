(* C15 -- facts about the model that need no real numbers: which results are
   marked exact, the pow short-cuts, the computed witnesses of the defect
   classes.  (Elem/TrigReals.v and Elem/Accuracy.v relate the model to the
   real functions.) *)
From FendV Require Import Base.Prelude Elem.Bridge Elem.Model.
From Coq Require Import QArith Lia.
Open Scope N_scope.

(* ------------------------------------------------------------------ *)
(* flags of the BigRat functions: everything that went through the f64
   bridge is marked approximate; the only exact results are sin 0, ln 1 and
   exp 0 (with the right values) *)

Lemma br_not_exact : forall (r : res Q) w,
  (do v <- r; Ok (mkEx v false)) = Ok w -> exb w = false.
Proof. intros r w H. destruct r; simpl in H; try discriminate. injection H as <-. reflexivity. Qed.

Lemma rat_fn_exact_cases : forall Fo f q v,
  rat_fn Fo f q = Ok v -> exb v = true ->
  (f = Fsin /\ (q == 0)%Q /\ exv v = 0%Q) \/
  (f = Fln /\ (q == 1)%Q /\ exv v = 0%Q) \/
  (f = Fexp /\ (q == 0)%Q /\ exv v = 1%Q).
Proof.
  intros Fo f q v H He.
  assert (Hbr : forall r : res Q, (do x <- r; Ok (mkEx x false)) = Ok v -> False).
  { intros r Hr. apply br_not_exact in Hr. congruence. }
  destruct f; unfold rat_fn in H.
  - destruct (qeq q 0) eqn:Hq.
    + injection H as <-. left. repeat split. now apply Qeq_bool_eq.
    + exfalso. eapply Hbr. exact H.
  - exfalso. eapply Hbr. exact H.
  - destruct (qlt 1 q || qlt q (-1 # 1)); [discriminate|]. exfalso. eapply Hbr. exact H.
  - destruct (qlt 1 q || qlt q (-1 # 1)); [discriminate|]. exfalso. eapply Hbr. exact H.
  - exfalso. eapply Hbr. exact H.
  - exfalso. eapply Hbr. exact H.
  - exfalso. eapply Hbr. exact H.
  - exfalso. eapply Hbr. exact H.
  - exfalso. eapply Hbr. exact H.
  - destruct (qlt q 1); [discriminate|]. exfalso. eapply Hbr. exact H.
  - destruct (qle 1 q || qle q (-1 # 1)); [discriminate|]. exfalso. eapply Hbr. exact H.
  - exfalso. eapply Hbr. exact H.
  - destruct (qeq q 1) eqn:Hq.
    + injection H as <-. right. left. repeat split. now apply Qeq_bool_eq.
    + set (c := from_f64 (fl_of_bits log2_e_bits)) in H.
      destruct (rat_log2 Fo q); cbn [bind] in H; try discriminate.
      destruct c; cbn [bind] in H; try discriminate.
      injection H as <-. discriminate.
  - set (c := from_f64 (fl_of_bits log2_10_bits)) in H.
    destruct (rat_log2 Fo q); cbn [bind] in H; try discriminate.
    destruct c; cbn [bind] in H; try discriminate.
    injection H as <-. discriminate.
  - destruct (Qnum q =? 0)%Z eqn:Hq.
    + injection H as <-. right. right. repeat split.
      apply Z.eqb_eq in Hq. unfold Qeq. simpl. lia.
    + exfalso. eapply Hbr. exact H.
Qed.

(* flags of the Real functions other than sin/cos/ln/exp: always approximate *)
Lemma real_fn_bridge_marked : forall Fo f r v,
  real_fn Fo f r = Ok v ->
  f <> Fsin -> f <> Fcos -> f <> Fln -> f <> Fexp -> exb v = false.
Proof.
  intros Fo f r v H H1 H2 H3 H4.
  destruct f; try congruence; unfold real_fn in H;
    destruct (rat_fn Fo _ (approximate r)); simpl in H; try discriminate;
    injection H as <-; reflexivity.
Qed.

(* ln and exp: exact only at ln 1 and exp 0 *)
Lemma real_fn_ln_exp_exact : forall Fo f r v,
  (f = Fln \/ f = Fexp) -> real_fn Fo f r = Ok v -> exb v = true ->
  (f = Fln /\ (approximate r == 1)%Q /\ exv v = RSimple 0) \/
  (f = Fexp /\ (approximate r == 0)%Q /\ exv v = RSimple 1).
Proof.
  intros Fo f r v Hf H He.
  assert (Hr : exists w, rat_fn Fo f (approximate r) = Ok w /\ v = ex_map RSimple w).
  { destruct Hf; subst f; unfold real_fn in H;
      destruct (rat_fn Fo _ (approximate r)) as [w| |]; simpl in H; try discriminate;
      injection H as <-; exists w; split; reflexivity. }
  destruct Hr as [w [Hw ->]]. simpl in He.
  destruct (rat_fn_exact_cases _ _ _ _ Hw He) as [[Hc _]|[[Hc [Hq Hv]]|[Hc [Hq Hv]]]].
  - destruct Hf; congruence.
  - left. repeat split; try assumption. simpl. now rewrite Hv.
  - right. repeat split; try assumption. simpl. now rewrite Hv.
Qed.

(* ------------------------------------------------------------------ *)
(* pow: x^1 = x, 1^x = 1, x^0 = 1, exact and unmarked *)

Lemma real_pow_one : forall a, real_pow a (RSimple 1) = Ok (mkEx a true).
Proof. intro a. unfold real_pow. reflexivity. Qed.

Lemma real_one_pow : forall b, is_simple_one b = false ->
  real_pow (RSimple 1) b = Ok (mkEx (RSimple 1%Q) true).
Proof.
  intros b Hb. unfold real_pow, real_pow_old. rewrite Hb.
  destruct (is_simple_zero b); reflexivity.
Qed.

(* x^0 = 1, exact, for every non-zero x of either pattern (fix commit d3c0150) *)
Lemma real_pow_zero : forall x, real_is_zero x = false ->
  real_pow x (RSimple 0) = Ok (mkEx (RSimple 1%Q) true).
Proof. intros x Hx. unfold real_pow. rewrite Hx. reflexivity. Qed.

Lemma Qred_zero_num : forall q, (Qnum q = 0)%Z -> Qred q = (0 # 1)%Q.
Proof.
  intros q Hq. apply (Qred_complete q (0 # 1)). unfold Qeq. simpl. lia.
Qed.

Lemma Qred_num_nonzero : forall q, (Qnum q <> 0)%Z -> (Qnum (Qred q) <> 0)%Z.
Proof.
  intros q Hq Hc. pose proof (Qred_correct q) as H. unfold Qeq in H. rewrite Hc in H. lia.
Qed.

(* the code before that commit: exact for a rational base (BigRat::pow) ... *)
Lemma rat_pow_zero : forall x, (Qnum x <> 0)%Z ->
  rat_pow x 0 = Ok (mkEx (1 # 1)%Q true).
Proof.
  intros x Hx. unfold rat_pow.
  change (Qred 0) with (0 # 1)%Q.
  pose proof (Qred_num_nonzero x Hx) as Hr.
  set (a := Qred x) in *.
  replace (negb (Pos.eqb (Qden (0 # 1)) 1)) with false by reflexivity.
  rewrite Bool.andb_false_r.
  replace (q_neg (0 # 1)) with false by reflexivity.
  unfold rat_pow_nonneg.
  replace (q_num_abs (0 # 1)) with 0 by reflexivity.
  unfold biguint_pow.
  assert (Ha : (q_num_abs a =? 0) = false).
  { apply N.eqb_neq. unfold q_num_abs. lia. }
  rewrite Ha. simpl ((_ && _)%bool). cbv iota. simpl (0 =? 0). cbv iota.
  simpl bind. simpl (Qden 0 =? 1)%positive. cbv iota.
  rewrite Bool.andb_false_r. reflexivity.
Qed.

Lemma real_pow_old_zero : forall x, (Qnum x <> 0)%Z ->
  exists v, real_pow_old (RSimple x) (RSimple 0) = Ok (mkEx (RSimple v) true) /\ (v == 1)%Q.
Proof.
  intros x Hx. unfold real_pow_old.
  replace (is_simple_one (RSimple 0)) with false by reflexivity.
  destruct (is_simple_one (RSimple x)).
  - exists 1%Q. split; reflexivity.
  - rewrite (rat_pow_zero x Hx). simpl. exists (1 # 1)%Q. split; reflexivity.
Qed.

(* ... but marked approximate for a Pi-pattern base: the repaired defect *)
Lemma real_pow_old_zero_pi_marked :
  real_pow_old (RPi 1) (RSimple 0) = Ok (mkEx (RSimple (1 # 1)%Q) false).
Proof. vm_compute. reflexivity. Qed.

(* ------------------------------------------------------------------ *)
(* computed witnesses *)

(* 2^pi: the exponent's numerator does not fit the exact power algorithm *)
Lemma pow_two_pi_rejected : real_pow (RSimple 2) (RPi 1) = Err EExpTooLarge.
Proof. vm_compute. reflexivity. Qed.

(* (10^400+1)/10^400: numerator and denominator both overflow f64 *)
Definition q_big_near_one : Q := Qmake (10 ^ 400 + 1) (10 ^ 400).

Lemma into_f64_big_near_one_is_nan : into_f64 q_big_near_one = FNaN.
Proof. vm_compute. reflexivity. Qed.

Lemma from_f64_old_nan_is_zero : from_f64_old FNaN = (0 # 18446744073709551615)%Q.
Proof. vm_compute. reflexivity. Qed.

(* a multiple of pi beyond 2^64/6: not looked up by the old code, looked up now *)
Lemma sin_table_old_2_70_none : sin_pi_table_old (2 ^ 70 # 1)%Q = None.
Proof. vm_compute. reflexivity. Qed.

Lemma sin_table_2_70 : sin_pi_table (2 ^ 70 # 1)%Q = Some 0%Q.
Proof. vm_compute. reflexivity. Qed.

Lemma known_big_pi_examples :
  known_big_pi_multiple (2 ^ 70 # 1)%Q = true /\
  known_big_pi_multiple (3074457345618258603 # 1)%Q = true /\
  known_big_pi_multiple (3074457345618258603 # 2)%Q = false /\
  known_big_pi_multiple (3074457345618258602 # 1)%Q = false.
Proof. vm_compute. repeat split; reflexivity. Qed.
