(* C15 -- BigRat::from_f64_old: exact description of what the saturating cast
   does.  No real numbers: a binary64 value is the dyadic rational fl_valQ. *)
From FendV Require Import Base.Prelude Elem.Bridge.
From Coq Require Import QArith Qabs Lia.
Open Scope Z_scope.

(* the value of a finite binary64: (-1)^s * m * 2^e, written so that it is
   obviously that *)
Definition fl_valQ (x : fl) : Q :=
  match x with
  | FFin s m e =>
    if 0 <=? e then inject_Z (sgnZ s m * 2 ^ e)
    else Qmake (sgnZ s m) (Z.to_pos (2 ^ (- e)))
  | _ => 0%Q
  end.

Lemma core_Z : forall v r K p1 p2 D : Z,
  D = 2 ^ 64 - 1 -> v = p2 * 2 ^ 64 + p1 -> 0 <= p1 < 2 ^ 64 -> 0 <= p2 -> 0 <= r < K ->
  Z.abs ((p1 + p2 * D) * (K * 2 ^ 64) - (v * K + r) * D) <= K * D.
Proof.
  intros v r K p1 p2 D HD Hv Hp1 Hp2 Hr.
  assert (E : (p1 + p2 * D) * (K * 2 ^ 64) - (v * K + r) * D = K * p1 - r * D).
  { subst D v. ring. }
  rewrite E. subst D.
  assert (0 <= K * p1 <= K * (2 ^ 64 - 1)) by nia.
  assert (0 <= r * (2 ^ 64 - 1) <= K * (2 ^ 64 - 1)) by nia.
  lia.
Qed.

(* magnitude part: i = v (a u128), true scaled value (v*K + r)/K with 0<=r<K *)
Lemma from_parts_error : forall v r K : Z,
  0 <= v -> 0 < K -> 0 <= r < K ->
  let p1 := v mod 2 ^ 64 in
  let p2 := v / 2 ^ 64 in
  (Qabs (Qmake (p1 + p2 * (2 ^ 64 - 1)) (Z.to_pos (2 ^ 64 - 1))
         - Qmake (v * K + r) (Z.to_pos (K * 2 ^ 64))) <= 1 # (Z.to_pos (2 ^ 64)))%Q.
Proof.
  intros v r K Hv HK Hr p1 p2.
  assert (Hdm : v = p2 * 2 ^ 64 + p1).
  { unfold p1, p2. rewrite Z.mul_comm. apply Z.div_mod. lia. }
  assert (Hp1 : 0 <= p1 < 2 ^ 64) by (unfold p1; apply Z.mod_pos_bound; lia).
  assert (Hp2 : 0 <= p2) by (unfold p2; apply Z.div_pos; lia).
  pose proof (core_Z v r K p1 p2 (2 ^ 64 - 1) eq_refl Hdm Hp1 Hp2 Hr) as Hc.
  unfold Qminus, Qplus, Qopp, Qabs, Qle. cbn [Qnum Qden].
  rewrite !Pos2Z.inj_mul. rewrite !Z2Pos.id by lia.
  replace ((p1 + p2 * (2 ^ 64 - 1)) * (K * 2 ^ 64) + - (v * K + r) * (2 ^ 64 - 1))
    with ((p1 + p2 * (2 ^ 64 - 1)) * (K * 2 ^ 64) - (v * K + r) * (2 ^ 64 - 1)) by ring.
  set (num := Z.abs _) in *.
  assert (0 <= num) by (unfold num; apply Z.abs_nonneg).
  nia.
Qed.

(* ------------------------------------------------------------------ *)
(* from_f64_old on a finite, non-negative, non-saturating value *)

Definition u64_max_pos : positive := 18446744073709551615.

Lemma u64_max_val : u64_max = Npos u64_max_pos.
Proof. reflexivity. Qed.

Lemma from_f64_unfold : forall s m e,
  from_f64_old (FFin s m e) =
  let i := f64_to_u128_scaled (FFin s m e) in
  Qmake (sgnZ (s && negb (m =? 0)%N) (i mod 2 ^ 64 + i / 2 ^ 64 * u64_max)%N) u64_max_pos.
Proof.
  intros s m e. unfold from_f64_old, from_f64_parts_old. cbn [fl_is_neg].
  rewrite u64_max_val at 2. unfold mkQ, sgnZ.
  destruct (s && negb (m =? 0)%N); reflexivity.
Qed.

Lemma pow2_pos : forall k, 0 <= k -> 0 < 2 ^ k.
Proof. intros. apply Z.pow_pos_nonneg; lia. Qed.

(* the scaled integer and its exact counterpart, in Z *)
Lemma scaled_cases : forall (m : N) (e : Z),
  let M := Z.of_N m in
  fl_saturates (FFin false m e) = false ->
  exists v r K : Z,
    0 <= v < 2 ^ 128 /\ 0 < K /\ 0 <= r < K /\
    f64_to_u128_scaled (FFin false m e) = Z.to_N v /\
    (fl_valQ (FFin false m e) == Qmake (v * K + r) (Z.to_pos (K * 2 ^ 64)))%Q.
Proof.
  intros m e M Hsat. unfold fl_saturates in Hsat.
  apply N.leb_gt in Hsat.
  assert (HM : 0 <= M) by (unfold M; lia).
  destruct (Z.leb_spec 0 e) as [He|He].
  - (* e >= 0 *)
    assert (Hw : M * 2 ^ e < 2 ^ 64).
    { apply N2Z.inj_lt in Hsat. rewrite N2Z.inj_mul, N2Z.inj_pow, Z2N.id in Hsat by lia.
      exact Hsat. }
    exists (M * 2 ^ (e + 64)), 0, 1.
    assert (Hp : 0 < 2 ^ e) by (apply pow2_pos; lia).
    assert (Hv : M * 2 ^ (e + 64) = M * 2 ^ e * 2 ^ 64) by (rewrite Z.pow_add_r by lia; ring).
    assert (Hv0 : 0 <= M * 2 ^ (e + 64)) by (rewrite Hv; nia).
    assert (Hv128 : M * 2 ^ (e + 64) < 2 ^ 128).
    { rewrite Hv. change (2 ^ 128) with (2 ^ 64 * 2 ^ 64). nia. }
    split; [lia|]. split; [lia|]. split; [lia|]. split.
    + unfold f64_to_u128_scaled.
      destruct (Z.leb_spec 0 (e + 64)); [|lia].
      rewrite N.min_l.
      * apply N2Z.inj. rewrite N2Z.inj_mul, N2Z.inj_pow, !Z2N.id; try lia.
      * unfold u128_max. apply N2Z.inj_le. rewrite N2Z.inj_mul, N2Z.inj_pow, Z2N.id by lia.
        fold M. change (Z.of_N (2 ^ 128 - 1)) with (2 ^ 128 - 1). lia.
    + unfold fl_valQ. destruct (Z.leb_spec 0 e); [|lia].
      unfold sgnZ. fold M. unfold Qeq, inject_Z. cbn [Qnum Qden].
      rewrite Z2Pos.id by lia. rewrite Hv. ring.
  - (* e < 0 *)
    assert (Hpe : 0 < 2 ^ (- e)) by (apply pow2_pos; lia).
    assert (Hw : M / 2 ^ (- e) < 2 ^ 64).
    { apply N2Z.inj_lt in Hsat. rewrite N2Z.inj_div, N2Z.inj_pow, Z2N.id in Hsat by lia.
      exact Hsat. }
    assert (HMlt : M < 2 ^ 64 * 2 ^ (- e)).
    { pose proof (Z.div_mod M (2 ^ (- e)) ltac:(lia)) as Hdm.
      pose proof (Z.mod_pos_bound M (2 ^ (- e)) Hpe) as Hmb. nia. }
    destruct (Z.leb_spec 0 (e + 64)) as [He'|He'].
    + (* -64 <= e < 0 *)
      exists (M * 2 ^ (e + 64)), 0, 1.
      assert (Hp : 0 < 2 ^ (e + 64)) by (apply pow2_pos; lia).
      assert (Hsplit : 2 ^ 64 = 2 ^ (e + 64) * 2 ^ (- e)).
      { rewrite <- Z.pow_add_r by lia. f_equal. lia. }
      assert (Hv128 : M * 2 ^ (e + 64) < 2 ^ 128).
      { change (2 ^ 128) with (2 ^ 64 * 2 ^ 64). rewrite Hsplit at 2.
        rewrite Hsplit in HMlt at 1. nia. }
      assert (Hv0 : 0 <= M * 2 ^ (e + 64)) by nia.
      split; [lia|]. split; [lia|]. split; [lia|]. split.
      * unfold f64_to_u128_scaled.
        destruct (Z.leb_spec 0 (e + 64)); [|lia].
        rewrite N.min_l.
        -- apply N2Z.inj. rewrite N2Z.inj_mul, N2Z.inj_pow, !Z2N.id; try lia.
        -- unfold u128_max. apply N2Z.inj_le. rewrite N2Z.inj_mul, N2Z.inj_pow, Z2N.id by lia.
           fold M. change (Z.of_N (2 ^ 128 - 1)) with (2 ^ 128 - 1). lia.
      * unfold fl_valQ. destruct (Z.leb_spec 0 e); [lia|].
        unfold sgnZ. fold M. unfold Qeq. cbn [Qnum Qden].
        rewrite !Z2Pos.id by lia. rewrite Hsplit. ring.
    + (* e < -64 *)
      set (k := - e - 64).
      assert (Hk : 0 < k) by (unfold k; lia).
      assert (HK : 0 < 2 ^ k) by (apply pow2_pos; lia).
      assert (Hsplit : 2 ^ (- e) = 2 ^ k * 2 ^ 64).
      { rewrite <- Z.pow_add_r by lia. f_equal. unfold k. lia. }
      exists (M / 2 ^ k), (M mod 2 ^ k), (2 ^ k).
      pose proof (Z.mod_pos_bound M (2 ^ k) HK) as Hr.
      assert (Hv0 : 0 <= M / 2 ^ k) by (apply Z.div_pos; lia).
      assert (Hv128 : M / 2 ^ k < 2 ^ 128).
      { apply Z.div_lt_upper_bound; [lia|]. rewrite Hsplit in HMlt.
        change (2 ^ 128) with (2 ^ 64 * 2 ^ 64). nia. }
      split; [lia|]. split; [lia|]. split; [lia|]. split.
      * unfold f64_to_u128_scaled.
        destruct (Z.leb_spec 0 (e + 64)); [lia|].
        replace (- (e + 64)) with k by (unfold k; lia).
        rewrite N.min_l.
        -- apply N2Z.inj. rewrite N2Z.inj_div, N2Z.inj_pow, !Z2N.id; try lia. reflexivity.
        -- unfold u128_max. apply N2Z.inj_le. rewrite N2Z.inj_div, N2Z.inj_pow, Z2N.id by lia.
           fold M. change (Z.of_N (2 ^ 128 - 1)) with (2 ^ 128 - 1). lia.
      * unfold fl_valQ. destruct (Z.leb_spec 0 e); [lia|].
        unfold sgnZ. fold M. unfold Qeq. cbn [Qnum Qden].
        rewrite !Z2Pos.id by lia.
        rewrite <- Hsplit.
        replace (M / 2 ^ k * 2 ^ k + M mod 2 ^ k) with M; [ring|].
        rewrite (Z.div_mod M (2 ^ k)) at 1 by lia. ring.
Qed.

Theorem from_f64_error_pos : forall m e,
  fl_saturates (FFin false m e) = false ->
  (Qabs (from_f64_old (FFin false m e) - fl_valQ (FFin false m e)) <= 1 # (Z.to_pos (2 ^ 64)))%Q.
Proof.
  intros m e Hsat.
  destruct (scaled_cases m e Hsat) as [v [r [K [Hv [HK [Hr [Hi HV]]]]]]].
  rewrite from_f64_unfold. cbv zeta. rewrite Hi, HV.
  simpl (false && _)%bool. unfold sgnZ.
  pose proof (from_parts_error v r K ltac:(lia) HK Hr) as H. cbv zeta in H.
  assert (Hn : Z.of_N (Z.to_N v mod 2 ^ 64 + Z.to_N v / 2 ^ 64 * u64_max)
               = v mod 2 ^ 64 + v / 2 ^ 64 * (2 ^ 64 - 1)).
  { rewrite N2Z.inj_add, N2Z.inj_mul, N2Z.inj_mod, N2Z.inj_div, Z2N.id by lia. reflexivity. }
  rewrite Hn.
  change u64_max_pos with (Z.to_pos (2 ^ 64 - 1)). exact H.
Qed.

(* ------------------------------------------------------------------ *)
(* signs *)

Lemma from_f64_neg : forall m e, (m =? 0)%N = false ->
  from_f64_old (FFin true m e) = Qopp (from_f64_old (FFin false m e)).
Proof.
  intros m e Hm. rewrite !from_f64_unfold. cbv zeta. rewrite Hm.
  simpl (true && negb false)%bool. simpl (false && negb false)%bool.
  unfold f64_to_u128_scaled, sgnZ, Qopp. cbn [Qnum Qden]. reflexivity.
Qed.

Lemma fl_valQ_neg : forall m e,
  (fl_valQ (FFin true m e) == Qopp (fl_valQ (FFin false m e)))%Q.
Proof.
  intros m e. unfold fl_valQ, sgnZ. destruct (0 <=? e).
  - unfold Qeq, inject_Z, Qopp. cbn [Qnum Qden]. ring.
  - unfold Qeq, Qopp. cbn [Qnum Qden]. ring.
Qed.

Lemma from_f64_zero : forall s e, (from_f64_old (FFin s 0 e) == 0)%Q.
Proof.
  intros s e. rewrite from_f64_unfold. cbv zeta. unfold f64_to_u128_scaled.
  assert (H : (if 0 <=? e + 64 then (0 * 2 ^ Z.to_N (e + 64))%N else (0 / 2 ^ Z.to_N (- (e + 64)))%N) = 0%N).
  { destruct (0 <=? e + 64); [reflexivity|]. apply N.div_0_l. apply N.pow_nonzero. discriminate. }
  rewrite H. simpl. rewrite Bool.andb_false_r. reflexivity.
Qed.

Lemma fl_valQ_zero : forall s e, (fl_valQ (FFin s 0 e) == 0)%Q.
Proof.
  intros s e. unfold fl_valQ, sgnZ. destruct s, (0 <=? e); reflexivity.
Qed.

(* every finite f64 below 2^64 in magnitude converts with an absolute error
   of at most 2^-64 (the property only needs 1e-9) *)
Theorem from_f64_old_error_lemma : forall s m e,
  fl_saturates (FFin s m e) = false ->
  (Qabs (from_f64_old (FFin s m e) - fl_valQ (FFin s m e)) <= 1 # (Z.to_pos (2 ^ 64)))%Q.
Proof.
  intros s m e Hsat. destruct s.
  - destruct (m =? 0)%N eqn:Hm.
    + apply N.eqb_eq in Hm. subst m.
      rewrite from_f64_zero, fl_valQ_zero. discriminate.
    + rewrite from_f64_neg by exact Hm. rewrite fl_valQ_neg.
      setoid_replace (- from_f64_old (FFin false m e) - - fl_valQ (FFin false m e))%Q
        with (- (from_f64_old (FFin false m e) - fl_valQ (FFin false m e)))%Q by ring.
      rewrite Qabs_opp. apply from_f64_error_pos. exact Hsat.
  - apply from_f64_error_pos. exact Hsat.
Qed.

(* ------------------------------------------------------------------ *)
(* saturation: anything of magnitude >= 2^64, and both infinities, become
   exactly +-2^64; NaN becomes 0 *)

Lemma from_f64_of_u128_max : forall s,
  (Qmake (sgnZ s (u128_max mod 2 ^ 64 + u128_max / 2 ^ 64 * u64_max)%N) u64_max_pos
   == inject_Z (sgnZ s (2 ^ 64)%N))%Q.
Proof. intro s. destruct s; vm_compute; reflexivity. Qed.

Lemma scaled_saturates : forall s m e,
  fl_saturates (FFin s m e) = true -> f64_to_u128_scaled (FFin s m e) = u128_max.
Proof.
  intros s m e Hsat. unfold fl_saturates in Hsat. apply N.leb_le in Hsat.
  unfold f64_to_u128_scaled. apply N.min_r.
  set (M := Z.of_N m). assert (HM : 0 <= M) by (unfold M; lia).
  apply N2Z.inj_le. unfold u128_max.
  change (Z.of_N (2 ^ 128 - 1)) with (2 ^ 128 - 1).
  assert (Hgoal : 2 ^ 128 <= Z.of_N (if 0 <=? e + 64 then (m * 2 ^ Z.to_N (e + 64))%N
                                      else (m / 2 ^ Z.to_N (- (e + 64)))%N)); [|lia].
  revert Hsat. destruct (Z.leb_spec 0 e) as [He|He]; intro Hsat.
  - apply N2Z.inj_le in Hsat. change (Z.of_N (2 ^ 64)%N) with (2 ^ 64) in Hsat.
    rewrite N2Z.inj_mul, N2Z.inj_pow, Z2N.id in Hsat by lia. fold M in Hsat.
    change (Z.of_N 2) with 2 in Hsat.
    destruct (Z.leb_spec 0 (e + 64)); [|lia].
    rewrite N2Z.inj_mul, N2Z.inj_pow, Z2N.id by lia. fold M. change (Z.of_N 2) with 2.
    rewrite Z.pow_add_r by lia. change (2 ^ 128) with (2 ^ 64 * 2 ^ 64).
    assert (0 < 2 ^ e) by (apply pow2_pos; lia). nia.
  - assert (Hpe : 0 < 2 ^ (- e)) by (apply pow2_pos; lia).
    apply N2Z.inj_le in Hsat. change (Z.of_N (2 ^ 64)%N) with (2 ^ 64) in Hsat.
    rewrite N2Z.inj_div, N2Z.inj_pow, Z2N.id in Hsat by lia. fold M in Hsat.
    change (Z.of_N 2) with 2 in Hsat.
    assert (HMge : 2 ^ 64 * 2 ^ (- e) <= M).
    { pose proof (Z.div_mod M (2 ^ (- e)) ltac:(lia)) as Hdm.
      pose proof (Z.mod_pos_bound M (2 ^ (- e)) Hpe) as Hmb. nia. }
    destruct (Z.leb_spec 0 (e + 64)) as [He'|He'].
    + rewrite N2Z.inj_mul, N2Z.inj_pow, Z2N.id by lia. fold M. change (Z.of_N 2) with 2.
      assert (Hp : 0 < 2 ^ (e + 64)) by (apply pow2_pos; lia).
      assert (Hsplit : 2 ^ 64 = 2 ^ (e + 64) * 2 ^ (- e)).
      { rewrite <- Z.pow_add_r by lia. f_equal. lia. }
      change (2 ^ 128) with (2 ^ 64 * 2 ^ 64). rewrite Hsplit at 2.
      nia.
    + set (k := - e - 64). assert (Hk : 0 < k) by (unfold k; lia).
      assert (HK : 0 < 2 ^ k) by (apply pow2_pos; lia).
      assert (Hsplit : 2 ^ (- e) = 2 ^ k * 2 ^ 64).
      { rewrite <- Z.pow_add_r by lia. f_equal. unfold k. lia. }
      replace (- (e + 64)) with k by (unfold k; lia).
      rewrite N2Z.inj_div, N2Z.inj_pow, Z2N.id by lia. fold M. change (Z.of_N 2) with 2.
      apply Z.div_le_lower_bound; [lia|].
      change (2 ^ 128) with (2 ^ 64 * 2 ^ 64). rewrite Hsplit in HMge. nia.
Qed.

Theorem from_f64_old_saturation_lemma : forall s m e,
  fl_saturates (FFin s m e) = true ->
  (from_f64_old (FFin s m e) == inject_Z (sgnZ s (2 ^ 64)%N))%Q.
Proof.
  intros s m e Hsat. rewrite from_f64_unfold. cbv zeta.
  rewrite (scaled_saturates s m e Hsat).
  assert (Hm : (m =? 0)%N = false).
  { apply N.eqb_neq. intro Hc. subst m. unfold fl_saturates in Hsat.
    apply N.leb_le in Hsat.
    assert (Hz : (if 0 <=? e then (0 * 2 ^ Z.to_N e)%N else (0 / 2 ^ Z.to_N (- e))%N) = 0%N).
    { destruct (0 <=? e); [reflexivity|]. apply N.div_0_l. apply N.pow_nonzero. discriminate. }
    rewrite Hz in Hsat. vm_compute in Hsat. contradiction. }
  rewrite Hm. rewrite Bool.andb_true_r. apply from_f64_of_u128_max.
Qed.

Lemma from_f64_old_inf : forall s, (from_f64_old (FInf s) == inject_Z (sgnZ s (2 ^ 64)%N))%Q.
Proof. intro s. destruct s; vm_compute; reflexivity. Qed.

Lemma from_f64_old_nan : (from_f64_old FNaN == 0)%Q.
Proof. vm_compute. reflexivity. Qed.


(* ------------------------------------------------------------------ *)
(* BigRat::from_f64 since fix commit d752faf: total description *)

Lemma saturates_nonzero : forall s m e, fl_saturates (FFin s m e) = true -> (m =? 0)%N = false.
Proof.
  intros s m e Hsat. apply N.eqb_neq. intro Hc. subst m. unfold fl_saturates in Hsat.
  apply N.leb_le in Hsat.
  assert (Hz : (if 0 <=? e then (0 * 2 ^ Z.to_N e)%N else (0 / 2 ^ Z.to_N (- e))%N) = 0%N).
  { destruct (0 <=? e); [reflexivity|]. apply N.div_0_l. apply N.pow_nonzero. discriminate. }
  rewrite Hz in Hsat. vm_compute in Hsat. contradiction.
Qed.

(* 2^64 and above: converted exactly *)
Theorem from_f64_exact_above_lemma : forall s m e,
  fl_saturates (FFin s m e) = true ->
  exists v, from_f64 (FFin s m e) = Ok v /\ (v == fl_valQ (FFin s m e))%Q.
Proof.
  intros s m e Hsat. pose proof (saturates_nonzero s m e Hsat) as Hm.
  unfold from_f64, from_f64_parts. rewrite Hsat. cbn [fl_is_neg]. rewrite Hm.
  rewrite Bool.andb_true_r.
  destruct (Z.leb_spec 0 e) as [He|He]; cbn [bind].
  - eexists. split; [reflexivity|]. unfold fl_valQ.
    destruct (Z.leb_spec 0 e); [|lia].
    unfold mkQ, sgnZ, Qeq, inject_Z. cbn [Qnum Qden].
    rewrite N2Z.inj_mul, N2Z.inj_pow, Z2N.id by lia. change (Z.of_N 2) with 2.
    destruct s; ring.
  - eexists. split; [reflexivity|]. unfold fl_valQ.
    destruct (Z.leb_spec 0 e); [lia|].
    assert (Hp : 0 < 2 ^ (- e)) by (apply pow2_pos; lia).
    unfold mkQ.
    assert (Hpn : (2 ^ Z.to_N (- e))%N = Npos (Z.to_pos (2 ^ (- e)))).
    { apply N2Z.inj. rewrite N2Z.inj_pow, Z2N.id by lia. change (Z.of_N 2) with 2.
      simpl Z.of_N. rewrite Z2Pos.id by lia. reflexivity. }
    rewrite Hpn. unfold sgnZ, Qeq. cbn [Qnum Qden]. destruct s; reflexivity.
Qed.

(* every finite f64: a value, within 2^-64 of the f64 (exactly it from 2^64 on) *)
Theorem from_f64_total_lemma : forall s m e,
  exists v, from_f64 (FFin s m e) = Ok v /\
            (Qabs (v - fl_valQ (FFin s m e)) <= 1 # (Z.to_pos (2 ^ 64)))%Q.
Proof.
  intros s m e. destruct (fl_saturates (FFin s m e)) eqn:Hsat.
  - destruct (from_f64_exact_above_lemma s m e Hsat) as [v [Hv Hq]].
    exists v. split; [exact Hv|]. rewrite Hq.
    setoid_replace (fl_valQ (FFin s m e) - fl_valQ (FFin s m e))%Q with 0%Q by ring.
    discriminate.
  - exists (from_f64_old (FFin s m e)). split.
    + unfold from_f64, from_f64_parts. rewrite Hsat. cbn [bind].
      unfold from_f64_old. destruct (from_f64_parts_old (FFin s m e)) as [[a b] c]. reflexivity.
    + apply from_f64_old_error_lemma. exact Hsat.
Qed.

(* infinities and NaN: an error, never a number *)
Theorem from_f64_nonfinite_lemma :
  from_f64 FNaN = Err EOther /\ forall s, from_f64 (FInf s) = Err EOther.
Proof. split; [reflexivity|intro s; reflexivity]. Qed.
