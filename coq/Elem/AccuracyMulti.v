(* C15 -- conditional accuracy with the libm premise ONLY: the conversion
   hypothesis [into_ok] is a theorem for every argument whose simplified
   numerator and denominator are below 2^1023 (Elem/RoundMulti.v).
   Functions: sin, cos, atan, tanh, asinh (Lipschitz constant 1), sinh and
   cosh (relative analysis), log2 / ln / log10 (their own path through
   BigUint::log2: Elem/LogAccuracy.v). *)
From FendV Require Import Base.Prelude Elem.Bridge Elem.Model Elem.BridgeProofs
  Elem.TrigReals Elem.PointDefs Elem.RoundProofs Elem.RoundMulti Elem.Accuracy Elem.AccuracySmall.
From Coq Require Import QArith Qreals Reals Lra Lia.
From Interval Require Import Tactic.
Open Scope R_scope.

(* numerator and denominator (simplified) below 2^1023, and the argument is 0
   or at least 2^-999 in magnitude (below that the quotient of two numbers
   under 2^1023 falls into the subnormal range of f64) *)
Definition ordinary_operands (q : Q) : Prop :=
  (Z.abs (Qnum (Qred q)) < 2 ^ 1023)%Z /\ (Z.pos (Qden (Qred q)) < 2 ^ 1023)%Z /\
  ((Qnum q = 0)%Z \/ p2 (-999) <= Rabs (Q2R q)).

Lemma p2_1000_big : 2000 <= p2 1000.
Proof.
  pose proof (p2_le 11 1000 ltac:(lia)).
  assert (p2 11 = 2048) by (change (p2 11) with (powerRZ 2 11); simpl; lra). lra.
Qed.

Theorem into_ok_ordinary : forall q, ordinary_operands q -> Rabs (Q2R q) <= 1000 ->
  into_ok (/ 2 ^ 46) q.
Proof.
  intros q [Hn [Hd Hz]] Hq. unfold into_ok.
  destruct (Z.eq_dec (Qnum q) 0) as [Hz0|Hnz].
  - unfold into_f64. rewrite Hz0. simpl (0 =? 0)%Z. cbv iota.
    unfold fl_zero. rewrite fl_R_flv. cbn [flv].
    assert (Hq0 : Q2R q = 0) by (unfold Q2R; rewrite Hz0; lra).
    rewrite Hq0. replace (RN 0) with 0 by reflexivity.
    replace (1 * (0 * p2 0) - 0) with 0 by ring. rewrite Rabs_R0. lra.
  - destruct Hz as [Hc|Hmag]; [contradiction|].
    pose proof p2_1000_big as Hbig.
    destruct (into_f64_multi_accurate q Hnz Hn Hd ltac:(split; lra)) as [s [m [e [Hfin H]]]].
    rewrite Hfin in *. rewrite fl_R_flv. exact H.
Qed.

(* the generic statement: any function with Lipschitz constant 1 whose libm
   counterpart is within eps of it at the consulted point *)
Lemma lipschitz1_budget : forall (F : oracle) (fR : R -> R) (eps : R) q,
  (forall a b, Rabs (fR a - fR b) <= 1 * Rabs (a - b)) ->
  0 <= eps <= / 2 ^ 40 ->
  Rabs (Q2R q) <= 1000 -> ordinary_operands q ->
  libm_ok F fR eps (into_f64 q) ->
  exists v, bridge F q = Ok v /\ Rabs (Q2R v - fR (Q2R q)) <= 1 / 10 ^ 9.
Proof.
  intros F fR eps q Hlip Heps Hq Hord Hlib.
  destruct (bridge_budget F fR 1 eps (/ 2 ^ 46) ltac:(lra) Hlip q (into_ok_ordinary q Hord Hq) Hlib)
    as [v [Hv H]].
  exists v. split; [exact Hv|]. eapply Rle_trans; [exact H|].
  assert (1 * / 2 ^ 46 * Rabs (Q2R q) <= / 2 ^ 46 * 1000).
  { rewrite Rmult_1_l. apply Rmult_le_compat_l; [|exact Hq]. left. apply Rinv_0_lt_compat. lra. }
  assert (/ 2 ^ 64 + / 2 ^ 40 + / 2 ^ 46 * 1000 <= 1 / 10 ^ 9) by (interval with (i_prec 64)).
  lra.
Qed.

(* ------------------------------------------------------------------ *)
(* Lipschitz constants of tanh and arcsinh *)

Lemma cosh2_sinh2 : forall x, cosh x * cosh x - sinh x * sinh x = 1.
Proof.
  intro x. unfold cosh, sinh.
  assert (H : exp x * exp (- x) = 1) by (rewrite <- exp_plus, Rplus_opp_r; apply exp_0).
  rewrite <- H. field.
Qed.

Lemma cosh_ge_1 : forall x, 1 <= cosh x.
Proof.
  intro x. unfold cosh.
  assert (H : exp x * exp (- x) = 1) by (rewrite <- exp_plus, Rplus_opp_r; apply exp_0).
  pose proof (exp_pos x). pose proof (exp_pos (- x)).
  set (a := exp x) in *. set (b := exp (- x)) in *. clearbody a b.
  pose proof (Rle_0_sqr (a - b)) as Hsq. unfold Rsqr in Hsq.
  assert (4 <= (a + b) * (a + b)).
  { replace ((a + b) * (a + b)) with ((a - b) * (a - b) + 4 * (a * b)) by ring. rewrite H. lra. }
  destruct (Rle_lt_dec 2 (a + b)) as [Hc|Hc]; [lra|]. exfalso.
  assert ((a + b) * (a + b) < 2 * 2) by (apply Rmult_le_0_lt_compat; lra). lra.
Qed.

Lemma derivable_pt_lim_tanh : forall x, derivable_pt_lim tanh x (/ (cosh x * cosh x)).
Proof.
  intro x. pose proof (cosh_ge_1 x) as Hc.
  replace (/ (cosh x * cosh x)) with ((cosh x * cosh x - sinh x * sinh x) / (cosh x)²).
  - apply (derivable_pt_lim_div sinh cosh x (cosh x) (sinh x)).
    + apply derivable_pt_lim_sinh.
    + apply derivable_pt_lim_cosh.
    + lra.
  - rewrite cosh2_sinh2. unfold Rsqr. field. lra.
Qed.

Lemma tanh_lipschitz : forall a b, Rabs (tanh a - tanh b) <= 1 * Rabs (a - b).
Proof.
  intros a b. rewrite Rmult_1_l.
  destruct (MVT_abs tanh (fun x => / (cosh x * cosh x)) b a) as [c [Hc _]].
  { intros. apply derivable_pt_lim_tanh. }
  rewrite Hc. rewrite <- (Rmult_1_l (Rabs (a - b))) at 2.
  apply Rmult_le_compat_r; [apply Rabs_pos|].
  pose proof (cosh_ge_1 c). assert (1 <= cosh c * cosh c) by nra.
  rewrite Rabs_right.
  - rewrite <- Rinv_1. apply Rinv_le_contravar; lra.
  - left. apply Rinv_0_lt_compat. lra.
Qed.

Lemma arcsinh_lipschitz : forall a b, Rabs (arcsinh a - arcsinh b) <= 1 * Rabs (a - b).
Proof.
  intros a b. rewrite Rmult_1_l.
  destruct (MVT_abs arcsinh (fun x => / sqrt (x ^ 2 + 1)) b a) as [c [Hc _]].
  { intros. apply derivable_pt_lim_arcsinh. }
  rewrite Hc. rewrite <- (Rmult_1_l (Rabs (a - b))) at 2.
  apply Rmult_le_compat_r; [apply Rabs_pos|].
  assert (H1 : 1 <= sqrt (c ^ 2 + 1)).
  { rewrite <- sqrt_1 at 1. apply sqrt_le_1_alt. pose proof (pow2_ge_0 c). lra. }
  rewrite Rabs_right.
  - apply Rle_trans with (/ 1); [apply Rinv_le_contravar; lra|rewrite Rinv_1; lra].
  - left. apply Rinv_0_lt_compat. lra.
Qed.

(* ------------------------------------------------------------------ *)
(* the conditional theorems: libm premise only *)

Theorem accuracy_sin_ordinary : forall Fo q,
  Rabs (Q2R q) <= 1000 -> ordinary_operands q ->
  libm_ok (Fo Fsin) sin (/ 2 ^ 52) (into_f64 q) ->
  exists v, real_fn Fo Fsin (RSimple q) = Ok v /\
            within_budget (real_val (exv v)) (true_fn Fsin (Q2R q)).
Proof.
  intros Fo q Hq Hord Hlib. unfold real_fn, real_sin, real_sin_with, rat_fn.
  destruct (qeq q 0) eqn:Hz.
  - eexists. split; [reflexivity|]. simpl. apply budget_of_abs.
    apply Qeq_bool_eq in Hz. rewrite (Qeq_eqR _ _ Hz), Q2R_0, sin_0.
    rewrite Rminus_0_r, Rabs_R0. lra.
  - destruct (lipschitz1_budget (Fo Fsin) sin (/ 2 ^ 52) q sin_lipschitz) as [v [Hv H]]; try assumption.
    { split; [|interval with (i_prec 64)]. left. apply Rinv_0_lt_compat. lra. }
    rewrite Hv. eexists. split; [reflexivity|]. simpl. apply budget_of_abs. exact H.
Qed.

Lemma plain_bridge_fn : forall Fo f q v,
  match f with Fatan | Fsinh | Fcosh | Ftanh | Fasinh => True | _ => False end ->
  bridge (Fo f) q = Ok v ->
  real_fn Fo f (RSimple q) = Ok (mkEx (RSimple v) false).
Proof.
  intros Fo f q v Hf Hv. destruct f; try contradiction;
    unfold real_fn, rat_fn; simpl approximate; rewrite Hv; reflexivity.
Qed.

Theorem accuracy_atan_ordinary : forall Fo q,
  Rabs (Q2R q) <= 1000 -> ordinary_operands q ->
  libm_ok (Fo Fatan) atan (/ 2 ^ 52) (into_f64 q) ->
  exists v, real_fn Fo Fatan (RSimple q) = Ok v /\
            within_budget (real_val (exv v)) (true_fn Fatan (Q2R q)).
Proof.
  intros Fo q Hq Hord Hlib.
  destruct (lipschitz1_budget (Fo Fatan) atan (/ 2 ^ 52) q atan_lipschitz) as [v [Hv H]]; try assumption.
  { split; [|interval with (i_prec 64)]. left. apply Rinv_0_lt_compat. lra. }
  rewrite (plain_bridge_fn Fo Fatan q v I Hv). eexists. split; [reflexivity|].
  simpl. apply budget_of_abs. exact H.
Qed.

Theorem accuracy_tanh_ordinary : forall Fo q,
  Rabs (Q2R q) <= 1000 -> ordinary_operands q ->
  libm_ok (Fo Ftanh) tanh (/ 2 ^ 52) (into_f64 q) ->
  exists v, real_fn Fo Ftanh (RSimple q) = Ok v /\
            within_budget (real_val (exv v)) (true_fn Ftanh (Q2R q)).
Proof.
  intros Fo q Hq Hord Hlib.
  destruct (lipschitz1_budget (Fo Ftanh) tanh (/ 2 ^ 52) q tanh_lipschitz) as [v [Hv H]]; try assumption.
  { split; [|interval with (i_prec 64)]. left. apply Rinv_0_lt_compat. lra. }
  rewrite (plain_bridge_fn Fo Ftanh q v I Hv). eexists. split; [reflexivity|].
  simpl. apply budget_of_abs. exact H.
Qed.

(* |asinh x| <= 7.7 for |x| <= 1000: one ulp is 2^-50 *)
Theorem accuracy_asinh_ordinary : forall Fo q,
  Rabs (Q2R q) <= 1000 -> ordinary_operands q ->
  libm_ok (Fo Fasinh) arcsinh (/ 2 ^ 50) (into_f64 q) ->
  exists v, real_fn Fo Fasinh (RSimple q) = Ok v /\
            within_budget (real_val (exv v)) (true_fn Fasinh (Q2R q)).
Proof.
  intros Fo q Hq Hord Hlib.
  destruct (lipschitz1_budget (Fo Fasinh) arcsinh (/ 2 ^ 50) q arcsinh_lipschitz) as [v [Hv H]]; try assumption.
  { split; [|interval with (i_prec 64)]. left. apply Rinv_0_lt_compat. lra. }
  rewrite (plain_bridge_fn Fo Fasinh q v I Hv). eexists. split; [reflexivity|].
  simpl. apply budget_of_abs. exact H.
Qed.

(* cos x = sin (x + pi_model/2): the hypotheses are about that sum *)
Theorem accuracy_cos_ordinary : forall Fo q,
  Rabs (Q2R q) <= 1000 -> (Qnum q =? 0)%Z = false ->
  let a := rat_add q ((1 # 2) * pi_model) in
  ordinary_operands a ->
  libm_ok (Fo Fsin) sin (/ 2 ^ 52) (into_f64 a) ->
  exists v, real_fn Fo Fcos (RSimple q) = Ok v /\
            within_budget (real_val (exv v)) (true_fn Fcos (Q2R q)).
Proof.
  intros Fo q Hq Hnz a Hord Hlib. unfold real_fn, real_cos, Model.cos_shift, cos_shift_ex.
  simpl real_is_zero. rewrite Hnz. simpl fst. simpl snd. fold a.
  unfold real_sin, real_sin_with, rat_fn.
  assert (Ha : Q2R a = Q2R q + / 2 * Q2R pi_model).
  { unfold a. rewrite (Qeq_eqR _ _ (rat_add_correct q ((1 # 2) * pi_model))).
    rewrite Q2R_plus, Q2R_mult, Q2R_half. lra. }
  pose proof pi_accuracy_lemma as Hpi. apply Rabs_le_inv in Hpi.
  assert (Hcs : Rabs (sin (Q2R a) - cos (Q2R q)) <= 1 / 10 ^ 23).
  { rewrite cos_sin. eapply Rle_trans; [apply sin_lipschitz|]. rewrite Rmult_1_l, Ha.
    apply Rabs_le. lra. }
  assert (Habs : Rabs (Q2R a) <= 1002).
  { rewrite Ha. apply Rabs_le. apply Rabs_le_inv in Hq.
    assert (3 < PI < 32 / 10) by (split; interval with (i_prec 64)). lra. }
  destruct (qeq a 0) eqn:Hz.
  - eexists. split; [reflexivity|]. simpl. apply budget_of_abs.
    apply Qeq_bool_eq in Hz. rewrite (Qeq_eqR _ _ Hz), Q2R_0, sin_0 in Hcs.
    rewrite Q2R_0. lra.
  - assert (Hin : into_ok (/ 2 ^ 46) a).
    { destruct Hord as [Hn [Hd Hzz]]. unfold into_ok.
      destruct (Z.eq_dec (Qnum a) 0) as [Hz0|Hnz0].
      - exfalso. assert (Hq0 : (a == 0)%Q) by (unfold Qeq; simpl; lia).
        apply Qeq_bool_iff in Hq0. unfold qeq in Hz. congruence.
      - destruct Hzz as [Hc|Hmag]; [contradiction|].
        pose proof p2_1000_big as Hbig.
        destruct (into_f64_multi_accurate a Hnz0 Hn Hd ltac:(split; lra)) as [s [m [e [Hfin H]]]].
        rewrite Hfin in *. rewrite fl_R_flv. exact H. }
    destruct (bridge_budget (Fo Fsin) sin 1 (/ 2 ^ 52) (/ 2 ^ 46) ltac:(lra) sin_lipschitz a Hin Hlib)
      as [v [Hv H]].
    rewrite Hv. eexists. split; [reflexivity|]. simpl. apply budget_of_abs.
    replace (Q2R v - cos (Q2R q))
      with ((Q2R v - sin (Q2R a)) + (sin (Q2R a) - cos (Q2R q))) by ring.
    eapply Rle_trans; [apply Rabs_triang|].
    assert (1 * / 2 ^ 46 * Rabs (Q2R a) <= / 2 ^ 46 * 1002).
    { rewrite Rmult_1_l. apply Rmult_le_compat_l; [|exact Habs]. left. apply Rinv_0_lt_compat. lra. }
    assert (/ 2 ^ 64 + / 2 ^ 52 + / 2 ^ 46 * 1002 + 1 / 10 ^ 23 <= 1 / 10 ^ 9) by (interval with (i_prec 64)).
    lra.
Qed.

(* ------------------------------------------------------------------ *)
(* sinh and cosh: relative analysis.  The libm premise is relative (1 ulp =
   2^-52 of the value) and requires a finite answer; up to |x| <= 1000 the
   derivative is bounded by exp |c| <= 4 * max(1,|f x|) * exp eta. *)

Definition libm_rel (F : oracle) (fR : R -> R) (eps : R) (x : fl) : Prop :=
  exists s m e, fl_of_bits (F (fl_bits x)) = FFin s m e /\
                Rabs (fl_R (FFin s m e) - fR (fl_R x)) <= eps * Rabs (fR (fl_R x)).

Lemma exp_abs_ge : forall c, exp c <= exp (Rabs c) /\ exp (- c) <= exp (Rabs c).
Proof.
  intro c. unfold Rabs. destruct (Rcase_abs c) as [Hn|Hp].
  - split; [|right; reflexivity].
    destruct (Rle_lt_or_eq_dec c (- c) ltac:(lra)) as [H|H]; [left; apply exp_increasing; exact H|rewrite <- H; right; reflexivity].
  - split; [right; reflexivity|].
    destruct (Rle_lt_or_eq_dec (- c) c ltac:(lra)) as [H|H]; [left; apply exp_increasing; exact H|rewrite H; right; reflexivity].
Qed.

Lemma cosh_le_exp_abs : forall c, cosh c <= exp (Rabs c).
Proof. intro c. unfold cosh. destruct (exp_abs_ge c). lra. Qed.

Lemma sinh_abs_le_exp_abs : forall c, Rabs (sinh c) <= exp (Rabs c).
Proof.
  intro c. unfold sinh. destruct (exp_abs_ge c). pose proof (exp_pos c). pose proof (exp_pos (- c)).
  apply Rabs_le. lra.
Qed.

Lemma exp_le_mono : forall a b, a <= b -> exp a <= exp b.
Proof.
  intros a b H. destruct (Rle_lt_or_eq_dec a b H) as [Hl|He]; [left; apply exp_increasing; exact Hl|rewrite He; right; reflexivity].
Qed.

Lemma exp_abs_le_4cosh : forall t, exp (Rabs t) <= 4 * Rmax 1 (Rabs (cosh t)).
Proof.
  intro t. pose proof (cosh_ge_1 t) as Hc. rewrite (Rabs_right (cosh t)) by lra.
  rewrite Rmax_right by lra.
  assert (exp (Rabs t) <= 2 * cosh t).
  { unfold cosh, Rabs. pose proof (exp_pos t). pose proof (exp_pos (- t)).
    destruct (Rcase_abs t); lra. }
  lra.
Qed.

Lemma sinh_opp : forall t, sinh (- t) = - sinh t.
Proof. intro t. unfold sinh. rewrite Ropp_involutive. lra. Qed.

Lemma exp_abs_le_4sinh : forall t, exp (Rabs t) <= 4 * Rmax 1 (Rabs (sinh t)).
Proof.
  intro t.
  assert (Hs : Rabs (sinh t) = sinh (Rabs t) /\ 0 <= Rabs t).
  { unfold Rabs at 2 3. destruct (Rcase_abs t) as [Hn|Hp].
    - split; [|lra]. rewrite sinh_opp.
      assert (sinh t <= 0).
      { unfold sinh. assert (exp t <= exp (- t)) by (apply exp_le_mono; lra). lra. }
      rewrite Rabs_left1; [reflexivity|exact H].
    - split; [|lra].
      assert (0 <= sinh t).
      { unfold sinh. assert (exp (- t) <= exp t) by (apply exp_le_mono; lra). lra. }
      rewrite Rabs_right; [reflexivity|lra]. }
  destruct Hs as [Hs Ha]. rewrite Hs. set (a := Rabs t) in *. clearbody a.
  destruct (Rle_lt_dec a 1) as [Hsmall|Hbig].
  - assert (exp a <= exp 1) by (apply exp_le_mono; exact Hsmall).
    assert (exp 1 <= 3) by (interval with (i_prec 64)).
    pose proof (Rmax_l 1 (sinh a)). lra.
  - assert (HE : 2 <= exp a).
    { assert (exp 1 <= exp a) by (apply exp_le_mono; lra).
      assert (2 <= exp 1) by (interval with (i_prec 64)). lra. }
    assert (Hinv : exp a * exp (- a) = 1) by (rewrite <- exp_plus, Rplus_opp_r; apply exp_0).
    pose proof (exp_pos (- a)) as Hb.
    assert (exp (- a) <= / 2).
    { set (E := exp a) in *. set (b := exp (- a)) in *.
      apply Rmult_le_reg_l with E; [lra|]. rewrite Hinv. lra. }
    pose proof (Rmax_r 1 (sinh a)). unfold sinh in *. lra.
Qed.

Section RelBudget.
  Variable F : oracle.
  Variable fR df : R -> R.
  Hypothesis deriv : forall c, derivable_pt_lim fR c (df c).
  Hypothesis df_bound : forall c, Rabs (df c) <= exp (Rabs c).
  Hypothesis size_bound : forall t, exp (Rabs t) <= 4 * Rmax 1 (Rabs (fR t)).

  Theorem rel_budget : forall q,
    Rabs (Q2R q) <= 1000 -> ordinary_operands q ->
    libm_rel F fR (/ 2 ^ 52) (into_f64 q) ->
    exists v, bridge F q = Ok v /\ within_budget (Q2R v) (fR (Q2R q)).
  Proof.
    intros q Hq Hord [s [m [e [Hy Hacc]]]].
    pose proof (into_ok_ordinary q Hord Hq) as Hin. unfold into_ok in Hin.
    unfold bridge. rewrite Hy.
    destruct (from_f64_error_R s m e) as [v [Hv H1]].
    exists v. split; [exact Hv|].
    set (xt := fl_R (into_f64 q)) in *. set (x := Q2R q) in *.
    set (y := fl_R (FFin s m e)) in *.
    set (M := Rmax 1 (Rabs (fR x))).
    assert (HM1 : 1 <= M) by apply Rmax_l.
    assert (HMf : Rabs (fR x) <= M) by apply Rmax_r.
    set (eta := / 2 ^ 46 * 1000).
    assert (Heta : Rabs (xt - x) <= eta).
    { eapply Rle_trans; [exact Hin|]. unfold eta. apply Rmult_le_compat_l; [|exact Hq].
      left. apply Rinv_0_lt_compat. apply pow_lt. lra. }
    (* (i) the function between x and its f64 image *)
    assert (Hi : Rabs (fR xt - fR x) <= 5 * eta * M).
    { destruct (MVT_abs fR df x xt) as [c [Hc Hcb]].
      { intros. apply deriv. }
      rewrite Hc.
      assert (Hcabs : Rabs c <= Rabs x + eta).
      { apply Rabs_le_inv in Heta. unfold Rmin, Rmax in Hcb.
        destruct (Rle_dec x xt); unfold Rabs; destruct (Rcase_abs c); destruct (Rcase_abs x); lra. }
      assert (Hdf : Rabs (df c) <= 4 * M * exp eta).
      { eapply Rle_trans; [apply df_bound|].
        eapply Rle_trans; [apply exp_le_mono; exact Hcabs|].
        rewrite exp_plus. pose proof (size_bound x) as Hs. fold M in Hs.
        pose proof (exp_pos eta). apply Rmult_le_compat_r; lra. }
      assert (Hee : exp eta <= 5 / 4) by (unfold eta; interval with (i_prec 64)).
      pose proof (Rabs_pos (df c)). pose proof (Rabs_pos (xt - x)). pose proof (exp_pos eta).
      assert (Rabs (df c) * Rabs (xt - x) <= (4 * M * exp eta) * eta) by (apply Rmult_le_compat; lra).
      assert (Heta0 : 0 < eta) by (unfold eta; interval with (i_prec 64)).
      assert (4 * M * exp eta * eta <= 4 * M * (5 / 4) * eta).
      { apply Rmult_le_compat_r; [lra|]. apply Rmult_le_compat_l; lra. }
      lra. }
    (* (ii) libm *)
    assert (Hii : Rabs (y - fR xt) <= / 2 ^ 52 * (M + 5 * eta * M)).
    { eapply Rle_trans; [exact Hacc|]. apply Rmult_le_compat_l; [left; apply Rinv_0_lt_compat, pow_lt; lra|].
      replace (fR xt) with (fR x + (fR xt - fR x)) by ring.
      eapply Rle_trans; [apply Rabs_triang|]. lra. }
    unfold within_budget. fold M.
    replace (Q2R v - fR x) with ((Q2R v - y) + (y - fR xt) + (fR xt - fR x)) by ring.
    eapply Rle_trans; [apply Rabs_triang|].
    eapply Rle_trans; [apply Rplus_le_compat_r; apply Rabs_triang|].
    assert (Hnum : / 2 ^ 64 + / 2 ^ 52 * (1 + 5 * eta) + 5 * eta <= 1 / 10 ^ 9) by (unfold eta; interval with (i_prec 64)).
    assert (0 < eta) by (unfold eta; interval with (i_prec 64)).
    assert (0 < / 2 ^ 52) by (apply Rinv_0_lt_compat, pow_lt; lra).
    assert (0 < / 2 ^ 64) by (apply Rinv_0_lt_compat, pow_lt; lra).
    nra.
  Qed.
End RelBudget.

Theorem accuracy_sinh_ordinary : forall Fo q,
  Rabs (Q2R q) <= 1000 -> ordinary_operands q ->
  libm_rel (Fo Fsinh) sinh (/ 2 ^ 52) (into_f64 q) ->
  exists v, real_fn Fo Fsinh (RSimple q) = Ok v /\
            within_budget (real_val (exv v)) (true_fn Fsinh (Q2R q)).
Proof.
  intros Fo q Hq Hord Hlib.
  destruct (rel_budget (Fo Fsinh) sinh cosh derivable_pt_lim_sinh) with (q := q) as [v [Hv H]]; try assumption.
  - intro c. rewrite Rabs_right; [apply cosh_le_exp_abs|]. pose proof (cosh_ge_1 c). lra.
  - exact exp_abs_le_4sinh.
  - rewrite (plain_bridge_fn Fo Fsinh q v I Hv). eexists. split; [reflexivity|]. exact H.
Qed.

Theorem accuracy_cosh_ordinary : forall Fo q,
  Rabs (Q2R q) <= 1000 -> ordinary_operands q ->
  libm_rel (Fo Fcosh) cosh (/ 2 ^ 52) (into_f64 q) ->
  exists v, real_fn Fo Fcosh (RSimple q) = Ok v /\
            within_budget (real_val (exv v)) (true_fn Fcosh (Q2R q)).
Proof.
  intros Fo q Hq Hord Hlib.
  destruct (rel_budget (Fo Fcosh) cosh sinh derivable_pt_lim_cosh) with (q := q) as [v [Hv H]]; try assumption.
  - exact sinh_abs_le_exp_abs.
  - exact exp_abs_le_4cosh.
  - rewrite (plain_bridge_fn Fo Fcosh q v I Hv). eexists. split; [reflexivity|]. exact H.
Qed.
