(* C15 -- the soft-float rounding of Elem/Bridge.v is round-to-nearest with
   relative error 2^-53 in the normal range; consequence: BigRat::into_f64 is
   within 2^-50 relative of its argument whenever the simplified numerator and
   denominator fit one 64-bit limb.  This discharges the hypothesis [into_ok]
   of the conditional accuracy theorems for those arguments. *)
From FendV Require Import Base.Prelude Elem.Bridge.
From Coq Require Import QArith Lia ZArith.
Open Scope N_scope.

(* ------------------------------------------------------------------ *)
(* exponent selection, in N: with A = log2 n, B = log2 d and
   e' = A - B (if d*2^A <= n*2^B) or A - B - 1, scaled by 2^(B+1):
   d * 2^(e'+B+1) <= n * 2^(B+1) < d * 2^(e'+B+2) *)

Lemma log2_bounds : forall n, 0 < n -> 2 ^ N.log2 n <= n < 2 ^ (N.log2 n + 1).
Proof.
  intros n Hn. pose proof (N.log2_spec n Hn) as H. rewrite N.add_1_r. exact H.
Qed.

Lemma exp_select_hi : forall n d, 0 < n -> 0 < d ->
  d * 2 ^ N.log2 n <= n * 2 ^ N.log2 d ->
  d * 2 ^ (N.log2 n + 1) <= n * 2 ^ (N.log2 d + 1) /\
  n * 2 ^ (N.log2 d + 1) < d * 2 ^ (N.log2 n + 2).
Proof.
  intros n d Hn Hd Hc.
  pose proof (log2_bounds n Hn) as [Hn1 Hn2]. pose proof (log2_bounds d Hd) as [Hd1 Hd2].
  rewrite !N.pow_add_r in *. change (2 ^ 1) with 2 in *. change (2 ^ 2) with 4.
  set (PA := 2 ^ N.log2 n) in *. set (PB := 2 ^ N.log2 d) in *.
  split; nia.
Qed.

Lemma exp_select_lo : forall n d, 0 < n -> 0 < d ->
  n * 2 ^ N.log2 d < d * 2 ^ N.log2 n ->
  d * 2 ^ N.log2 n <= n * 2 ^ (N.log2 d + 1) /\
  n * 2 ^ (N.log2 d + 1) < d * 2 ^ (N.log2 n + 1).
Proof.
  intros n d Hn Hd Hc.
  pose proof (log2_bounds n Hn) as [Hn1 Hn2]. pose proof (log2_bounds d Hd) as [Hd1 Hd2].
  rewrite !N.pow_add_r in *. change (2 ^ 1) with 2 in *.
  set (PA := 2 ^ N.log2 n) in *. set (PB := 2 ^ N.log2 d) in *.
  split; nia.
Qed.

(* ------------------------------------------------------------------ *)
(* nearest integer to n'/d' *)

Definition nearest (n' d' : N) : N :=
  let q := n' / d' in
  let r := n' mod d' in
  if 2 * r <? d' then q else if d' <? 2 * r then q + 1 else if N.even q then q else q + 1.

Lemma nearest_spec : forall n' d', 0 < d' ->
  let m := nearest n' d' in
  (2 * (m * d') <= 2 * n' + d') /\ (2 * n' <= 2 * (m * d') + d').
Proof.
  intros n' d' Hd m. unfold m, nearest.
  pose proof (N.div_mod' n' d') as Hdm.
  pose proof (N.mod_lt n' d' ltac:(lia)) as Hr.
  set (q := n' / d') in *. set (r := n' mod d') in *.
  destruct (N.ltb_spec (2 * r) d'); [nia|].
  destruct (N.ltb_spec d' (2 * r)); [nia|].
  destruct (N.even q); nia.
Qed.

Lemma nearest_bounds : forall n' d' lo hi, 0 < d' ->
  lo * d' <= n' -> n' < hi * d' -> lo <= nearest n' d' <= hi.
Proof.
  intros n' d' lo hi Hd Hlo Hhi. unfold nearest.
  pose proof (N.div_mod' n' d') as Hdm.
  pose proof (N.mod_lt n' d' ltac:(lia)) as Hr.
  set (q := n' / d') in *. set (r := n' mod d') in *.
  assert (lo <= q) by nia. assert (q < hi) by nia.
  destruct (N.ltb_spec (2 * r) d'); [lia|].
  destruct (N.ltb_spec d' (2 * r)); [lia|].
  destruct (N.even q); lia.
Qed.

(* ------------------------------------------------------------------ *)
(* the scaled operands n', d' of round_pos in the normal range satisfy
   2^52 * d' <= n' < 2^53 * d'  *)

Definition sel_e (n d : N) : Z :=
  if d * 2 ^ N.log2 n <=? n * 2 ^ N.log2 d
  then (Z.of_N (N.log2 n) - Z.of_N (N.log2 d))%Z
  else (Z.of_N (N.log2 n) - Z.of_N (N.log2 d) - 1)%Z.

Definition scaled_n (n : N) (sh : Z) : N := if (0 <=? sh)%Z then n * 2 ^ Z.to_N sh else n.
Definition scaled_d (d : N) (sh : Z) : N := if (0 <=? sh)%Z then d else d * 2 ^ Z.to_N (- sh).

Lemma scaled_bounds : forall n d, 0 < n -> 0 < d ->
  let sh := (52 - sel_e n d)%Z in
  2 ^ 52 * scaled_d d sh <= scaled_n n sh /\ scaled_n n sh < 2 ^ 53 * scaled_d d sh.
Proof.
  intros n d Hn Hd sh. unfold scaled_n, scaled_d. unfold sh, sel_e.
  set (a := N.log2 n). set (b := N.log2 d).
  assert (HPA : 0 < 2 ^ a) by (apply N.neq_0_lt_0, N.pow_nonzero; discriminate).
  assert (HPB : 0 < 2 ^ b) by (apply N.neq_0_lt_0, N.pow_nonzero; discriminate).
  destruct (N.leb_spec (d * 2 ^ a) (n * 2 ^ b)) as [Hc|Hc].
  - pose proof (exp_select_hi n d Hn Hd Hc) as [_ H2]. fold a b in H2.
    rewrite !N.pow_add_r in H2. change (2 ^ 1) with 2 in H2. change (2 ^ 2) with 4 in H2.
    destruct (Z.leb_spec 0 (52 - (Z.of_N a - Z.of_N b))) as [Hs|Hs].
    + set (x := Z.to_N (52 - (Z.of_N a - Z.of_N b))).
      assert (Hx : x + a = 52 + b) by (unfold x; lia).
      assert (HX : 2 ^ x * 2 ^ a = 2 ^ 52 * 2 ^ b) by (rewrite <- !N.pow_add_r; f_equal; exact Hx).
      set (X := 2 ^ x) in *. set (PA := 2 ^ a) in *. set (PB := 2 ^ b) in *.
      change (2 ^ 53) with (2 * 2 ^ 52). set (T := 2 ^ 52) in *.
      split; nia.
    + set (y := Z.to_N (- (52 - (Z.of_N a - Z.of_N b)))).
      assert (Hy : y + 52 + b = a) by (unfold y; lia).
      assert (HY : 2 ^ y * 2 ^ 52 * 2 ^ b = 2 ^ a) by (rewrite <- !N.pow_add_r; f_equal; exact Hy).
      set (Y := 2 ^ y) in *. set (PA := 2 ^ a) in *. set (PB := 2 ^ b) in *.
      change (2 ^ 53) with (2 * 2 ^ 52). set (T := 2 ^ 52) in *.
      split; nia.
  - pose proof (exp_select_lo n d Hn Hd Hc) as [H1 _]. fold a b in H1.
    rewrite !N.pow_add_r in H1. change (2 ^ 1) with 2 in H1.
    destruct (Z.leb_spec 0 (52 - (Z.of_N a - Z.of_N b - 1))) as [Hs|Hs].
    + set (x := Z.to_N (52 - (Z.of_N a - Z.of_N b - 1))).
      assert (Hx : x + a = 53 + b) by (unfold x; lia).
      assert (HX : 2 ^ x * 2 ^ a = 2 ^ 53 * 2 ^ b) by (rewrite <- !N.pow_add_r; f_equal; exact Hx).
      set (X := 2 ^ x) in *. set (PA := 2 ^ a) in *. set (PB := 2 ^ b) in *.
      change (2 ^ 53) with (2 * 2 ^ 52) in *. set (T := 2 ^ 52) in *.
      split; nia.
    + set (y := Z.to_N (- (52 - (Z.of_N a - Z.of_N b - 1)))).
      assert (Hy : y + 53 + b = a) by (unfold y; lia).
      assert (HY : 2 ^ y * 2 ^ 53 * 2 ^ b = 2 ^ a) by (rewrite <- !N.pow_add_r; f_equal; exact Hy).
      set (Y := 2 ^ y) in *. set (PA := 2 ^ a) in *. set (PB := 2 ^ b) in *.
      change (2 ^ 53) with (2 * 2 ^ 52) in *. set (T := 2 ^ 52) in *.
      split; nia.
Qed.

(* round_pos in the normal range, structurally *)
Lemma round_pos_normal : forall neg n d s, 0 < n -> 0 < d ->
  (-1022 <= sel_e n d + s <= 1022)%Z ->
  let sh := (52 - sel_e n d)%Z in
  let m := nearest (scaled_n n sh) (scaled_d d sh) in
  round_pos neg n d s = FFin neg m (sel_e n d + s - 52) /\ 2 ^ 52 <= m <= 2 ^ 53.
Proof.
  intros neg n d s Hn Hd He sh m.
  pose proof (scaled_bounds n d Hn Hd) as [Hb1 Hb2]. fold sh in Hb1, Hb2.
  assert (Hd' : 0 < scaled_d d sh).
  { unfold scaled_d. destruct (0 <=? sh)%Z; [exact Hd|].
    apply N.mul_pos_pos; [exact Hd|]. apply N.neq_0_lt_0, N.pow_nonzero. discriminate. }
  assert (Hm : 2 ^ 52 <= m <= 2 ^ 53).
  { unfold m. apply nearest_bounds; try assumption. }
  split; [|exact Hm].
  unfold round_pos.
  destruct (N.eqb_spec n 0) as [Hz|_]; [lia|].
  assert (Hsel : (if d * 2 ^ N.log2 n <=? n * 2 ^ N.log2 d
                  then (Z.of_N (N.log2 n) - Z.of_N (N.log2 d) + s)%Z
                  else (Z.of_N (N.log2 n) - Z.of_N (N.log2 d) + s - 1)%Z) = (sel_e n d + s)%Z).
  { unfold sel_e. destruct (d * 2 ^ N.log2 n <=? n * 2 ^ N.log2 d); lia. }
  rewrite Hsel.
  rewrite Z.max_l by lia.
  replace (s - (sel_e n d + s - 52))%Z with sh by (unfold sh; lia).
  fold (scaled_n n sh). fold (scaled_d d sh).
  fold (nearest (scaled_n n sh) (scaled_d d sh)). fold m.
  destruct (Z.leb_spec 1025 (Z.of_N (N.size m) + (sel_e n d + s - 52))) as [Hov|_]; [|reflexivity].
  exfalso.
  assert (Hsz : N.size m <= 54).
  { assert (Hm0 : m <> 0) by (destruct Hm as [Hm _]; intro Hc; rewrite Hc in Hm; vm_compute in Hm; congruence).
    rewrite N.size_log2 by exact Hm0.
    assert (N.log2 m < 54); [|lia].
    apply N.log2_lt_pow2; [lia|]. change (2 ^ 54) with (2 * 2 ^ 53). lia. }
  lia.
Qed.

(* ------------------------------------------------------------------ *)
(* over the reals *)
From Coq Require Import Reals Lra Qreals.
From Interval Require Import Tactic.
Open Scope R_scope.

Definition p2 (e : Z) : R := powerRZ 2 e.
Definition RN (n : N) : R := IZR (Z.of_N n).

Lemma p2_pos : forall e, 0 < p2 e.
Proof. intro e. unfold p2. apply powerRZ_lt. lra. Qed.

Lemma p2_add : forall a b, p2 (a + b) = p2 a * p2 b.
Proof. intros a b. unfold p2. apply powerRZ_add. lra. Qed.

Lemma p2_0 : p2 0 = 1.
Proof. reflexivity. Qed.

Lemma p2_of_N : forall k : N, p2 (Z.of_N k) = RN (2 ^ k).
Proof.
  intro k. unfold p2, RN. rewrite N2Z.inj_pow. change (Z.of_N 2) with 2%Z.
  rewrite <- (Z2Nat.id (Z.of_N k)) by lia.
  rewrite <- pow_powerRZ. rewrite <- pow_IZR. reflexivity.
Qed.

Lemma RN_mul : forall a b, RN (a * b) = RN a * RN b.
Proof. intros. unfold RN. rewrite N2Z.inj_mul. apply mult_IZR. Qed.

Lemma RN_1 : RN 1 = 1.
Proof. reflexivity. Qed.

Lemma RN_pos : forall a, (0 < a)%N -> 0 < RN a.
Proof. intros a H. unfold RN. apply IZR_lt. lia. Qed.

Lemma RN_le : forall a b, (a <= b)%N -> RN a <= RN b.
Proof. intros a b H. unfold RN. apply IZR_le. lia. Qed.

Lemma RN_lt : forall a b, (a < b)%N -> RN a < RN b.
Proof. intros a b H. unfold RN. apply IZR_lt. lia. Qed.

(* the real value n * 2^s / d equals (n'/d') * 2^(s - sh) for the scaled pair *)
Lemma scaled_value : forall n d (s sh : Z), (0 < d)%N ->
  RN n * p2 s / RN d = RN (scaled_n n sh) / RN (scaled_d d sh) * p2 (s - sh).
Proof.
  intros n d s sh Hd. unfold scaled_n, scaled_d.
  pose proof (RN_pos d Hd) as Hdp.
  destruct (Z.leb_spec 0 sh) as [Hs|Hs].
  - rewrite RN_mul, <- p2_of_N, Z2N.id by lia.
    replace s with (sh + (s - sh))%Z at 1 by lia. rewrite p2_add. field. lra.
  - rewrite RN_mul, <- p2_of_N, Z2N.id by lia.
    replace (s - sh)%Z with (s + - sh)%Z by lia. rewrite p2_add.
    pose proof (p2_pos (- sh)). field. split; lra.
Qed.

(* round_pos in the normal range: relative error at most 2^-53 *)
Theorem round_pos_rel_error : forall neg n d s, (0 < n)%N -> (0 < d)%N ->
  (-1022 <= sel_e n d + s <= 1022)%Z ->
  let v := RN n * p2 s / RN d in
  exists m, round_pos neg n d s = FFin neg m (sel_e n d + s - 52) /\
            (2 ^ 52 <= m <= 2 ^ 53)%N /\
            Rabs (RN m * p2 (sel_e n d + s - 52) - v) <= / 2 ^ 53 * v /\ 0 < v.
Proof.
  intros neg n d s Hn Hd He v.
  destruct (round_pos_normal neg n d s Hn Hd He) as [Hr Hm].
  set (sh := (52 - sel_e n d)%Z) in *.
  set (n' := scaled_n n sh) in *. set (d' := scaled_d d sh) in *.
  set (m := nearest n' d') in *.
  exists m. split; [exact Hr|]. split; [exact Hm|].
  pose proof (scaled_bounds n d Hn Hd) as [Hb1 Hb2]. fold sh n' d' in Hb1, Hb2.
  assert (Hd' : (0 < d')%N).
  { unfold d', scaled_d. destruct (0 <=? sh)%Z; [exact Hd|].
    apply N.mul_pos_pos; [exact Hd|]. apply N.neq_0_lt_0, N.pow_nonzero. discriminate. }
  pose proof (nearest_spec n' d' Hd') as [Hs1 Hs2]. fold m in Hs1, Hs2.
  pose proof (RN_pos d' Hd') as Hdp.
  assert (Hv : v = RN n' / RN d' * p2 (sel_e n d + s - 52)).
  { unfold v. rewrite (scaled_value n d s sh Hd). f_equal. f_equal. unfold sh. lia. }
  set (ex := (sel_e n d + s - 52)%Z) in *.
  pose proof (p2_pos ex) as Hpe.
  (* integer facts to reals *)
  apply RN_le in Hs1. apply RN_le in Hs2. apply RN_le in Hb1.
  repeat rewrite ?RN_mul, ?N2Z.inj_add in Hs1, Hs2, Hb1.
  unfold RN in Hs1, Hs2. rewrite !N2Z.inj_add, !N2Z.inj_mul, !plus_IZR, !mult_IZR in Hs1, Hs2.
  fold (RN m) (RN n') (RN d') in Hs1, Hs2.
  change (IZR (Z.of_N 2)) with 2 in Hs1, Hs2.
  assert (H252 : RN (2 ^ 52) = 2 ^ 52).
  { unfold RN. change (Z.of_N (2 ^ 52)) with 4503599627370496%Z. lra. }
  rewrite H252 in Hb1.
  set (w := RN n' / RN d') in *.
  assert (Hw1 : RN n' = w * RN d') by (unfold w; field; lra).
  assert (Hwlo : 2 ^ 52 <= w).
  { unfold w. apply Rmult_le_reg_r with (RN d'); [exact Hdp|].
    unfold Rdiv. rewrite Rmult_assoc, Rinv_l by lra. lra. }
  assert (Hmw : Rabs (RN m - w) <= / 2).
  { apply Rabs_le. rewrite Hw1 in Hs1, Hs2. split.
    - apply Rmult_le_reg_r with (RN d'); [exact Hdp|]. nra.
    - apply Rmult_le_reg_r with (RN d'); [exact Hdp|]. nra. }
  assert (Hvpos : 0 < v).
  { rewrite Hv. apply Rmult_lt_0_compat; [|exact Hpe]. assert (0 < 2 ^ 52) by (apply pow_lt; lra). lra. }
  split; [|exact Hvpos].
  rewrite Hv. replace (RN m * p2 ex - w * p2 ex) with ((RN m - w) * p2 ex) by ring.
  rewrite Rabs_mult, (Rabs_right (p2 ex)) by lra.
  assert (H53 : / 2 <= / 2 ^ 53 * w).
  { apply Rmult_le_reg_l with (2 ^ 53); [apply pow_lt; lra|].
    rewrite <- Rmult_assoc, Rinv_r, Rmult_1_l by (apply pow_nonzero; lra).
    replace (2 ^ 53 * / 2) with (2 ^ 52) by (simpl; lra). exact Hwlo. }
  replace (/ 2 ^ 53 * (w * p2 ex)) with (/ 2 ^ 53 * w * p2 ex) by ring.
  apply Rmult_le_compat_r; lra.
Qed.

(* ------------------------------------------------------------------ *)
(* BigUint::as_f64 and BigRat::into_f64 on one-limb operands *)

Lemma Rabs_le_inv' : forall a b, Rabs a <= b -> - b <= a <= b.
Proof. intros a b. unfold Rabs. destruct (Rcase_abs a); lra. Qed.

Definition flv (x : fl) : R :=
  match x with
  | FFin s m e => (if s then -1 else 1) * (RN m * p2 e)
  | _ => 0
  end.

Definition u53 : R := / 2 ^ 53.

(* a "good" finite positive float: normalised mantissa, moderate exponent *)
Definition good (x : fl) (lo hi : Z) : Prop :=
  exists m e, x = FFin false m e /\ (2 ^ 52 <= m <= 2 ^ 53)%N /\ (lo <= e <= hi)%Z.

Lemma sel_e_den1 : forall n, (0 < n)%N -> sel_e n 1 = Z.of_N (N.log2 n).
Proof.
  intros n Hn. unfold sel_e. change (N.log2 1) with 0%N.
  rewrite N.pow_0_r, N.mul_1_r, N.mul_1_l.
  destruct (N.leb_spec (2 ^ N.log2 n) n) as [_|Hc]; [simpl; lia|].
  pose proof (N.log2_spec n Hn). lia.
Qed.

Lemma log2_range : forall m (a b : N), (2 ^ a <= m)%N -> (m <= 2 ^ b)%N -> (0 < m)%N ->
  (a <= N.log2 m <= b)%N.
Proof.
  intros m a b H1 H2 Hm. split.
  - apply N.log2_le_pow2; assumption.
  - destruct (N.eq_dec m (2 ^ b)) as [->|Hne].
    + rewrite N.log2_pow2; lia.
    + assert (N.log2 m < b)%N; [|lia]. apply N.log2_lt_pow2; lia.
Qed.

(* `n as f64` *)
Lemma fl_of_N_spec : forall n, (0 < n < 2 ^ 64)%N ->
  good (fl_of_N n) (-52) 11 /\ Rabs (flv (fl_of_N n) - RN n) <= u53 * RN n.
Proof.
  intros n [Hn0 Hn64]. unfold fl_of_N.
  assert (Hl : (N.log2 n < 64)%N) by (apply N.log2_lt_pow2; assumption).
  destruct (round_pos_rel_error false n 1 0 Hn0 ltac:(lia)) as [m [Hr [Hm [Herr Hv]]]].
  { rewrite sel_e_den1 by exact Hn0. lia. }
  rewrite sel_e_den1 in * by exact Hn0.
  split.
  - exists m, (Z.of_N (N.log2 n) + 0 - 52)%Z. split; [exact Hr|]. split; [exact Hm|lia].
  - rewrite Hr. cbn [flv]. rewrite Rmult_1_l.
    assert (Hone : RN n * p2 0 / RN 1 = RN n) by (rewrite p2_0, RN_1; field).
    rewrite Hone in Herr. exact Herr.
Qed.

(* 0.0 + x: one more rounding of an already representable value *)
Lemma fl_add_zero_l : forall m e, (2 ^ 52 <= m <= 2 ^ 53)%N -> (-60 <= e <= 60)%Z ->
  good (fl_add (FFin false 0 0) (FFin false m e)) (-61) 62 /\
  Rabs (flv (fl_add (FFin false 0 0) (FFin false m e)) - RN m * p2 e) <= u53 * (RN m * p2 e).
Proof.
  intros m e Hm He. unfold fl_add, sgnZ.
  set (emin := Z.min 0 e).
  set (z := (Z.of_N 0 * 2 ^ (0 - emin) + Z.of_N m * 2 ^ (e - emin))%Z).
  assert (Hp : (0 < 2 ^ (e - emin))%Z) by (apply Z.pow_pos_nonneg; unfold emin; lia).
  assert (Hz : z = (Z.of_N m * 2 ^ (e - emin))%Z) by (unfold z; simpl; lia).
  assert (Hm0 : (0 < Z.of_N m)%Z).
  { assert (0 < m)%N; [|lia]. destruct Hm as [Hm _].
    eapply N.lt_le_trans; [|exact Hm]. reflexivity. }
  assert (Hzpos : (0 < z)%Z) by (rewrite Hz; nia).
  destruct (Z.eqb_spec z 0) as [Hc|_]; [lia|].
  destruct (Z.ltb_spec z 0) as [Hc|_]; [lia|].
  set (zn := Z.abs_N z).
  assert (Hzn : zn = (m * 2 ^ Z.to_N (e - emin))%N).
  { unfold zn. apply N2Z.inj. rewrite N2Z.inj_abs_N, Z.abs_eq by lia.
    rewrite Hz, N2Z.inj_mul, N2Z.inj_pow, Z2N.id by (unfold emin; lia). reflexivity. }
  assert (Hznpos : (0 < zn)%N) by (unfold zn; lia).
  (* log2 zn = log2 m + (e - emin) *)
  set (k := Z.to_N (e - emin)) in *.
  assert (Hlog : N.log2 zn = (N.log2 m + k)%N).
  { rewrite Hzn. rewrite N.log2_mul_pow2; [lia| |lia].
    assert (0 < m)%N by lia. lia. }
  assert (Hlm : (52 <= N.log2 m <= 53)%N).
  { apply log2_range; try (destruct Hm; assumption). lia. }
  assert (Hk : Z.of_N k = (e - emin)%Z) by (unfold k; rewrite Z2N.id; unfold emin; lia).
  destruct (round_pos_rel_error false zn 1 emin Hznpos ltac:(lia)) as [m2 [Hr [Hm2 [Herr Hv]]]].
  { rewrite sel_e_den1 by exact Hznpos. rewrite Hlog, N2Z.inj_add, Hk. unfold emin. lia. }
  rewrite sel_e_den1 in * by exact Hznpos.
  assert (Hval : RN zn * p2 emin / RN 1 = RN m * p2 e).
  { rewrite Hzn, RN_mul, <- p2_of_N. fold k. rewrite Hk.
    replace e with ((e - emin) + emin)%Z at 2 by lia. rewrite p2_add.
    rewrite RN_1. field. }
  rewrite Hval in Herr.
  split.
  - exists m2, (Z.of_N (N.log2 zn) + emin - 52)%Z. split; [exact Hr|]. split; [exact Hm2|].
    rewrite Hlog, N2Z.inj_add, Hk. unfold emin. lia.
  - rewrite Hr. cbn [flv]. rewrite Rmult_1_l. exact Herr.
Qed.

Lemma limbs_be_small : forall n, (0 < n < 2 ^ 64)%N -> limbs_be n = [n].
Proof.
  intros n [Hn0 Hn64]. unfold limbs_be.
  set (f := N.to_nat (N.size n / 64)). cbn [limbs_be_fuel].
  destruct (N.eqb_spec n 0) as [Hc|_]; [lia|].
  rewrite N.div_small, N.mod_small by exact Hn64.
  destruct f; reflexivity.
Qed.

Lemma as_f64_small : forall n, (0 < n < 2 ^ 64)%N ->
  good (as_f64 n) (-61) 62 /\ Rabs (flv (as_f64 n) - RN n) <= 3 * u53 * RN n.
Proof.
  intros n Hn. unfold as_f64. rewrite (limbs_be_small n Hn). cbn [fold_left].
  replace (fl_scale64 fl_zero) with (FFin false 0 0) by (vm_compute; reflexivity).
  destruct (fl_of_N_spec n Hn) as [[m [e [Hx [Hm He]]]] Herr].
  rewrite Hx in *. cbn [flv] in Herr. rewrite Rmult_1_l in Herr.
  destruct (fl_add_zero_l m e Hm ltac:(lia)) as [Hg Herr2].
  split; [exact Hg|].
  pose proof (RN_pos n ltac:(lia)) as Hnp.
  set (x1 := RN m * p2 e) in *.
  set (x2 := flv (fl_add (FFin false 0 0) (FFin false m e))) in *.
  assert (Hu : 0 < u53 < / 2 ^ 50) by (unfold u53; split; interval with (i_prec 64)).
  apply Rabs_le. apply Rabs_le_inv' in Herr. apply Rabs_le_inv' in Herr2.
  assert (0 < x1) by nra.
  split; nra.
Qed.

Lemma rel_bounds : forall p t c, 0 < t -> Rabs (p - t) <= c * t -> 1 - c <= p / t <= 1 + c.
Proof.
  intros p t c Ht H. apply Rabs_le_inv' in H. split.
  - apply Rmult_le_reg_r with t; [exact Ht|]. unfold Rdiv. rewrite Rmult_assoc, Rinv_l by lra. lra.
  - apply Rmult_le_reg_r with t; [exact Ht|]. unfold Rdiv. rewrite Rmult_assoc, Rinv_l by lra. lra.
Qed.

(* x / y for two good floats: one more rounding *)
Lemma sel_e_good : forall m1 m2, (2 ^ 52 <= m1 <= 2 ^ 53)%N -> (2 ^ 52 <= m2 <= 2 ^ 53)%N ->
  (-2 <= sel_e m1 m2 <= 1)%Z.
Proof.
  intros m1 m2 H1 H2. unfold sel_e.
  assert (0 < m1)%N by lia. assert (0 < m2)%N by lia.
  pose proof (log2_range m1 52 53 ltac:(lia) ltac:(lia) ltac:(lia)).
  pose proof (log2_range m2 52 53 ltac:(lia) ltac:(lia) ltac:(lia)).
  destruct (m2 * 2 ^ N.log2 m1 <=? m1 * 2 ^ N.log2 m2)%N; lia.
Qed.

Lemma fl_div_good : forall x y, good x (-61) 62 -> good y (-61) 62 ->
  exists m e, fl_div x y = FFin false m e /\
    Rabs (flv (fl_div x y) - flv x / flv y) <= u53 * (flv x / flv y) /\
    0 < flv x /\ 0 < flv y.
Proof.
  intros x y [m1 [e1 [-> [Hm1 He1]]]] [m2 [e2 [-> [Hm2 He2]]]].
  assert (H1 : (0 < m1)%N) by lia. assert (H2 : (0 < m2)%N) by lia.
  unfold fl_div. destruct (N.eqb_spec m2 0) as [Hc|_]; [lia|].
  simpl xorb.
  pose proof (sel_e_good m1 m2 Hm1 Hm2) as Hs.
  destruct (round_pos_rel_error false m1 m2 (e1 - e2) H1 H2 ltac:(lia)) as [m [Hr [Hm [Herr Hv]]]].
  exists m, (sel_e m1 m2 + (e1 - e2) - 52)%Z. split; [exact Hr|].
  rewrite Hr. cbn [flv]. rewrite !Rmult_1_l.
  pose proof (RN_pos m1 H1). pose proof (RN_pos m2 H2).
  pose proof (p2_pos e1). pose proof (p2_pos e2).
  assert (Hval : RN m1 * p2 (e1 - e2) / RN m2 = RN m1 * p2 e1 / (RN m2 * p2 e2)).
  { replace (e1 - e2)%Z with (e1 + - e2)%Z by lia. rewrite p2_add.
    assert (Hinv : p2 (- e2) = / p2 e2).
    { apply Rmult_eq_reg_l with (p2 e2); [|lra]. rewrite <- p2_add, Rinv_r by lra.
      replace (e2 + - e2)%Z with 0%Z by lia. apply p2_0. }
    rewrite Hinv. field. split; lra. }
  rewrite Hval in Herr.
  split; [exact Herr|]. split; nra.
Qed.

(* BigRat::into_f64 when the simplified numerator and denominator fit one
   64-bit limb: within 2^-50 relative of the rational *)
Theorem into_f64_small_accurate : forall q : Q,
  (Qnum q <> 0)%Z ->
  (Z.abs (Qnum (Qred q)) < 2 ^ 64)%Z -> (Z.pos (Qden (Qred q)) < 2 ^ 64)%Z ->
  Rabs (flv (into_f64 q) - Q2R q) <= / 2 ^ 50 * Rabs (Q2R q).
Proof.
  intros q Hq0 Hn Hd. unfold into_f64.
  destruct (Z.eqb_spec (Qnum q) 0) as [Hc|_]; [contradiction|].
  set (r := Qred q) in *.
  assert (Hqr : Q2R q = Q2R r) by (symmetry; apply Qeq_eqR, Qred_correct).
  assert (Hrn0 : (Qnum r <> 0)%Z).
  { intro Hc. pose proof (Qred_correct q) as H. fold r in H. unfold Qeq in H. rewrite Hc in H. lia. }
  set (n := q_num_abs r). set (d := q_den r).
  assert (Hnr : (0 < n < 2 ^ 64)%N) by (unfold n, q_num_abs; lia).
  assert (Hdr : (0 < d < 2 ^ 64)%N) by (unfold d, q_den; lia).
  destruct (as_f64_small n Hnr) as [Hgx Hex]. destruct (as_f64_small d Hdr) as [Hgy Hey].
  destruct (fl_div_good _ _ Hgx Hgy) as [m [e [Hdiv [Herr [Hxp Hyp]]]]].
  set (X := flv (as_f64 n)) in *. set (Y := flv (as_f64 d)) in *.
  set (P := flv (fl_div (as_f64 n) (as_f64 d))) in *.
  pose proof (RN_pos n ltac:(lia)) as Hnp. pose proof (RN_pos d ltac:(lia)) as Hdp.
  (* relative factors *)
  set (fa := X / RN n). set (fb := Y / RN d). set (fd := P / (X / Y)).
  assert (HXY : 0 < X / Y) by (apply Rdiv_lt_0_compat; assumption).
  assert (Hfa : 1 - 3 * u53 <= fa <= 1 + 3 * u53) by (apply rel_bounds; assumption).
  assert (Hfb : 1 - 3 * u53 <= fb <= 1 + 3 * u53) by (apply rel_bounds; assumption).
  assert (Hfd : 1 - u53 <= fd <= 1 + u53) by (apply rel_bounds; assumption).
  assert (HP : P = RN n / RN d * (fa / fb * fd)).
  { unfold fa, fb, fd. field. repeat split; lra. }
  assert (Hfac : Rabs (fa / fb * fd - 1) <= / 2 ^ 50).
  { unfold u53 in *. interval with (i_prec 100). }
  assert (Hqv : Rabs (Q2R r) = RN n / RN d).
  { unfold Q2R, n, d, q_num_abs, q_den, RN. rewrite N2Z.inj_abs_N.
    unfold Rdiv. rewrite Rabs_mult, <- abs_IZR. f_equal.
    rewrite Rabs_right; [reflexivity|]. left. apply Rinv_0_lt_compat. apply IZR_lt. lia. }
  rewrite Hqr.
  assert (Hgoal : Rabs (P - RN n / RN d) <= / 2 ^ 50 * (RN n / RN d)).
  { rewrite HP. replace (RN n / RN d * (fa / fb * fd) - RN n / RN d) with (RN n / RN d * (fa / fb * fd - 1)) by ring.
    rewrite Rabs_mult, (Rabs_right (RN n / RN d)).
    - rewrite Rmult_comm. apply Rmult_le_compat_r; [|exact Hfac]. left. apply Rdiv_lt_0_compat; assumption.
    - left. apply Rdiv_lt_0_compat; assumption. }
  destruct (q_neg r) eqn:Hneg.
  - (* negative *)
    assert (Hr : Q2R r = - (RN n / RN d)).
    { unfold q_neg in Hneg. apply Z.ltb_lt in Hneg.
      assert (Hrneg : Q2R r < 0).
      { unfold Q2R. assert (IZR (Qnum r) < 0) by (apply IZR_lt; lia).
        assert (0 < / IZR (Z.pos (Qden r))) by (apply Rinv_0_lt_compat, IZR_lt; lia). nra. }
      rewrite <- Hqv. rewrite Rabs_left by exact Hrneg. lra. }
    rewrite Hdiv in *. cbn [fl_neg flv]. cbn [flv] in Hgoal. unfold P in Hgoal.
    rewrite Hqv, Hr.
    replace ((if negb false then -1 else 1) * (RN m * p2 e) - - (RN n / RN d))
      with (- (1 * (RN m * p2 e) - RN n / RN d)) by (simpl; ring).
    rewrite Rabs_Ropp. rewrite Hdiv in Hgoal. cbn [flv] in Hgoal. exact Hgoal.
  - assert (Hr : Q2R r = RN n / RN d).
    { unfold q_neg in Hneg. apply Z.ltb_ge in Hneg.
      rewrite <- Hqv. rewrite Rabs_right; [reflexivity|].
      unfold Q2R. apply Rle_ge. apply Rmult_le_pos; [apply IZR_le; lia|].
      left. apply Rinv_0_lt_compat. apply IZR_lt. lia. }
    rewrite Hqv, Hr. exact Hgoal.
Qed.
