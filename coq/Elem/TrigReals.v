(* C15 -- proofs over Coq's classical reals about the exact special points of
   Real::sin / Real::cos (model: Elem/Model.v).  Never extracted.          *)
From FendV Require Import Base.Prelude Elem.Bridge Elem.Model Elem.ModelProofs.
From Coq Require Import QArith Qreals Reals Lra Lia.
Open Scope R_scope.

Definition real_val (r : real) : R :=
  match r with RSimple q => Q2R q | RPi q => Q2R q * PI end.

(* ------------------------------------------------------------------ *)
(* casts *)

Lemma IZR_of_N_INR : forall n : N, IZR (Z.of_N n) = INR (N.to_nat n).
Proof. intro n. rewrite INR_IZR_INZ. now rewrite N_nat_Z. Qed.

Lemma Q2R_inject_Z : forall z, Q2R (inject_Z z) = IZR z.
Proof. intro z. unfold Q2R, inject_Z. simpl. lra. Qed.

(* ------------------------------------------------------------------ *)
(* a BigRat that is a natural number; try_as_usize *)

Lemma rat_as_nat_spec : forall q k,
  rat_as_nat q = Some k -> (q == inject_Z (Z.of_N k))%Q.
Proof.
  intros q k. unfold rat_as_nat.
  destruct (Z.ltb_spec (Qnum q) 0) as [Hneg|Hnn]; [discriminate|].
  set (n := Z.to_N (Qnum q)). set (d := Npos (Qden q)).
  assert (Hn : Z.of_N n = Qnum q) by (unfold n; now rewrite Z2N.id).
  destruct (N.eqb_spec d 1) as [Hd1|Hd1].
  - intro H. injection H as <-.
    unfold Qeq, inject_Z. simpl. unfold d in Hd1. injection Hd1 as Hd1. rewrite Hd1, Hn. lia.
  - set (g := N.gcd n d).
    destruct (N.eqb_spec (d / g) 1) as [Hdg|Hdg]; simpl; [|discriminate].
    intro H. injection H as <-.
    assert (Hg0 : g <> 0%N).
    { unfold g. intro Hc. apply N.gcd_eq_0_r in Hc. unfold d in Hc. discriminate. }
    destruct (N.gcd_divide_r n d) as [c Hc]. fold g in Hc.
    destruct (N.gcd_divide_l n d) as [c' Hc']. fold g in Hc'.
    assert (Hdg' : (d / g = c)%N) by (rewrite Hc; apply N.div_mul; exact Hg0).
    assert (Hng : (n / g = c')%N) by (rewrite Hc' at 1; apply N.div_mul; exact Hg0).
    rewrite Hng. rewrite Hdg' in Hdg. subst c. rewrite N.mul_1_l in Hc.
    unfold Qeq, inject_Z. simpl. rewrite <- Hn, Hc'.
    change (Z.pos (Qden q)) with (Z.of_N d). rewrite Hc. rewrite N2Z.inj_mul. lia.
Qed.

Lemma rat_try_as_usize_spec : forall q k,
  rat_try_as_usize q = Some k -> (q == inject_Z (Z.of_N k))%Q /\ (k < 2 ^ 64)%N.
Proof.
  intros q k. unfold rat_try_as_usize.
  destruct (rat_as_nat q) as [n|] eqn:Hn; [|discriminate].
  destruct (N.ltb_spec n usize_limit) as [Hlt|_]; [|discriminate].
  intro H. injection H as <-. split; [apply rat_as_nat_spec; exact Hn|exact Hlt].
Qed.

(* completeness: every representation of a natural number is accepted *)
Lemma rat_as_nat_hit : forall q (k : N), (q == inject_Z (Z.of_N k))%Q -> rat_as_nat q = Some k.
Proof.
  intros q k Hq. unfold rat_as_nat.
  assert (Hnn : (0 <= Qnum q)%Z).
  { unfold Qeq, inject_Z in Hq. simpl in Hq. nia. }
  destruct (Z.ltb_spec (Qnum q) 0) as [Hc|_]; [lia|].
  set (n := Z.to_N (Qnum q)). set (d := N.pos (Qden q)).
  assert (Hn : n = (k * d)%N).
  { unfold n, d. unfold Qeq, inject_Z in Hq. simpl in Hq.
    apply N2Z.inj. rewrite Z2N.id by lia. rewrite N2Z.inj_mul. simpl Z.of_N at 2. lia. }
  assert (Hd0 : d <> 0%N) by (unfold d; discriminate).
  destruct (N.eqb_spec d 1) as [Hd1|Hd1].
  - rewrite Hn, Hd1, N.mul_1_r. reflexivity.
  - assert (Hgcd : N.gcd n d = d).
    { rewrite Hn. rewrite N.gcd_comm, (N.mul_comm k d). apply N.gcd_mul_diag_l. apply N.le_0_l. }
    rewrite Hgcd. rewrite N.div_same by exact Hd0.
    simpl (negb (1 =? 1)%N). cbv iota.
    rewrite Hn, N.div_mul by exact Hd0. reflexivity.
Qed.

Lemma rat_try_as_usize_small : forall r : N, (r < 2 ^ 64)%N ->
  rat_try_as_usize (inject_Z (Z.of_N r)) = Some r.
Proof.
  intros r Hr. unfold rat_try_as_usize.
  rewrite (rat_as_nat_hit _ r) by reflexivity.
  destruct (N.ltb_spec r usize_limit) as [_|Hc]; [reflexivity|unfold usize_limit in Hc; lia].
Qed.

(* ------------------------------------------------------------------ *)
(* sin at k*pi/6 *)

Lemma sin_k_pi6_mod : forall k : N,
  sin (IZR (Z.of_N k) * PI / 6) = sin (IZR (Z.of_N (k mod 12)) * PI / 6).
Proof.
  intro k.
  rewrite (N.div_mod' k 12) at 1.
  rewrite N2Z.inj_add, N2Z.inj_mul, plus_IZR, mult_IZR.
  rewrite (IZR_of_N_INR (k / 12)).
  replace (IZR (Z.of_N 12)) with 12 by (simpl; lra).
  replace ((12 * INR (N.to_nat (k / 12)) + IZR (Z.of_N (k mod 12))) * PI / 6)
    with (IZR (Z.of_N (k mod 12)) * PI / 6 + 2 * INR (N.to_nat (k / 12)) * PI) by lra.
  apply sin_period.
Qed.

Lemma sin_0pi6 : sin (0 * PI / 6) = 0.
Proof. replace (0 * PI / 6) with 0 by lra. apply sin_0. Qed.
Lemma sin_1pi6 : sin (1 * PI / 6) = 1 / 2.
Proof. replace (1 * PI / 6) with (PI / 6) by lra. apply sin_PI6. Qed.
Lemma sin_3pi6 : sin (3 * PI / 6) = 1.
Proof. replace (3 * PI / 6) with (PI / 2) by lra. apply sin_PI2. Qed.
Lemma sin_5pi6 : sin (5 * PI / 6) = 1 / 2.
Proof. replace (5 * PI / 6) with (PI - PI / 6) by lra. rewrite sin_PI_x. apply sin_PI6. Qed.
Lemma sin_6pi6 : sin (6 * PI / 6) = 0.
Proof. replace (6 * PI / 6) with PI by lra. apply sin_PI. Qed.
Lemma sin_7pi6 : sin (7 * PI / 6) = - (1 / 2).
Proof. replace (7 * PI / 6) with (PI / 6 + PI) by lra. rewrite neg_sin, sin_PI6. reflexivity. Qed.
Lemma sin_9pi6 : sin (9 * PI / 6) = -1.
Proof. replace (9 * PI / 6) with (3 * (PI / 2)) by lra. apply sin_3PI2. Qed.
Lemma sin_11pi6 : sin (11 * PI / 6) = - (1 / 2).
Proof.
  replace (11 * PI / 6) with (- (PI / 6) + 2 * INR 1 * PI) by (simpl; lra).
  rewrite sin_period, sin_neg, sin_PI6. reflexivity.
Qed.

Lemma Q2R_half : Q2R (1 # 2) = 1 / 2.
Proof. unfold Q2R. simpl. lra. Qed.
Lemma Q2R_mhalf : Q2R (-1 # 2) = - (1 / 2).
Proof. unfold Q2R. simpl. lra. Qed.
Lemma Q2R_m1 : Q2R (-1 # 1) = -1.
Proof. unfold Q2R. simpl. lra. Qed.
Lemma Q2R_1 : Q2R 1 = 1.
Proof. unfold Q2R. simpl. lra. Qed.
Lemma Q2R_0 : Q2R 0 = 0.
Proof. unfold Q2R. simpl. lra. Qed.

Lemma mod12_cases : forall k : N, (k mod 12 < 12)%N.
Proof. intro k. apply N.mod_lt. discriminate. Qed.

(* the value the table returns is the sine of that multiple of pi: for every
   rational n (any size, any representation) *)
(* the table is right for every integer k = 6n *)
Lemma sin_table_of_sound : forall k v,
  sin_table_of k = Some v -> Q2R v = sin (IZR (Z.of_N k) * PI / 6).
Proof.
  intros k v. unfold sin_table_of. rewrite sin_k_pi6_mod.
  pose proof (mod12_cases k) as Hlt.
  assert (Hm6 : (k mod 6 = (k mod 12) mod 6)%N).
  { change 12%N with (6 * 2)%N. rewrite N.mod_mul_r by discriminate.
    rewrite N.add_mod, (N.mul_comm 6), N.mod_mul, N.add_0_r by discriminate.
    now rewrite !N.mod_mod by discriminate. }
  rewrite Hm6. clear Hm6.
  set (r := (k mod 12)%N) in *. clearbody r. clear k.
  assert (Hr : (r = 0 \/ r = 1 \/ r = 2 \/ r = 3 \/ r = 4 \/ r = 5 \/ r = 6 \/ r = 7
               \/ r = 8 \/ r = 9 \/ r = 10 \/ r = 11)%N) by lia.
  repeat (destruct Hr as [Hr|Hr]); subst r; intro H; vm_compute in H;
    try discriminate; injection H as <-; cbn [Z.of_N].
  - rewrite Q2R_0. symmetry. apply sin_0pi6.
  - rewrite Q2R_half. symmetry. apply sin_1pi6.
  - rewrite Q2R_1. symmetry. apply sin_3pi6.
  - rewrite Q2R_half. symmetry. apply sin_5pi6.
  - rewrite Q2R_0. symmetry. apply sin_6pi6.
  - rewrite Q2R_mhalf. symmetry. apply sin_7pi6.
  - rewrite Q2R_m1. symmetry. apply sin_9pi6.
  - rewrite Q2R_mhalf. symmetry. apply sin_11pi6.
Qed.

Lemma sin_table_of_mod12 : forall k, sin_table_of (k mod 12) = sin_table_of k.
Proof.
  intro k. unfold sin_table_of.
  assert (H6 : ((k mod 12) mod 6 = k mod 6)%N).
  { change 12%N with (6 * 2)%N. rewrite N.mod_mul_r by discriminate.
    rewrite N.add_mod, (N.mul_comm 6), N.mod_mul, N.add_0_r by discriminate.
    now rewrite !N.mod_mod by discriminate. }
  rewrite H6, !N.mod_mod by discriminate. reflexivity.
Qed.

Lemma Q2R_of_nat_multiple : forall n (k : N), (n * 6 == inject_Z (Z.of_N k))%Q ->
  Q2R n * PI = IZR (Z.of_N k) * PI / 6.
Proof.
  intros n k Hk. apply Qeq_eqR in Hk. rewrite Q2R_mult, Q2R_inject_Z in Hk.
  change 6%Q with (inject_Z 6) in Hk. rewrite Q2R_inject_Z in Hk.
  rewrite <- Hk. field.
Qed.

(* the value a table returns is the sine of that multiple of pi: for every
   rational n (any size, any representation) -- the current table and the one
   before fix commit 06c1b45 *)
Lemma sin_pi_table_sound : forall n v,
  sin_pi_table n = Some v -> Q2R v = sin (Q2R n * PI).
Proof.
  intros n v. unfold sin_pi_table.
  destruct (rat_as_nat (n * 6)) as [k|] eqn:Hk; [|discriminate].
  apply rat_as_nat_spec in Hk.
  rewrite rat_try_as_usize_small.
  - rewrite sin_table_of_mod12. intro H. apply sin_table_of_sound in H.
    rewrite (Q2R_of_nat_multiple n k Hk). exact H.
  - pose proof (mod12_cases k). lia.
Qed.

Lemma sin_pi_table_old_sound : forall n v,
  sin_pi_table_old n = Some v -> Q2R v = sin (Q2R n * PI).
Proof.
  intros n v. unfold sin_pi_table_old.
  destruct (rat_try_as_usize (n * 6)) as [k|] eqn:Hk; [|discriminate].
  apply rat_try_as_usize_spec in Hk. destruct Hk as [Hk _].
  intro H. apply sin_table_of_sound in H.
  rewrite (Q2R_of_nat_multiple n k Hk). exact H.
Qed.

(* ------------------------------------------------------------------ *)
(* the rational used for pi *)

Definition pi_num : Z := 7766573304754681815099112040135962057748114100254599612090187253.
Definition pi_den : positive := 2472177064674529749758634765928338485757864963795000752246620160.

Lemma pi_model_value : pi_model = Qmake pi_num pi_den.
Proof. vm_compute. reflexivity. Qed.

Lemma pi_model_res_ok : pi_model_res = Ok (Qmake pi_num pi_den).
Proof. vm_compute. reflexivity. Qed.

Lemma pi_model_pos : (0 < pi_model)%Q.
Proof. rewrite pi_model_value. reflexivity. Qed.

Lemma Qmult_zero_r_inv : forall a b : Q, (0 < b)%Q -> (a * b == 0)%Q -> (a == 0)%Q.
Proof.
  intros a b Hb H. destruct (Qmult_integral _ _ H) as [Ha|Hb0]; [exact Ha|].
  rewrite Hb0 in Hb. discriminate.
Qed.

(* ------------------------------------------------------------------ *)
(* soundness of the exact flag of Real::sin, for any sound table that
   answers 0 at 0 *)

Lemma zero_times_six : forall n, (n == 0)%Q -> (n * 6 == inject_Z (Z.of_N 0))%Q.
Proof. intros n Hn. rewrite Hn. reflexivity. Qed.

Lemma sin_pi_table_zero : forall n, (n == 0)%Q -> sin_pi_table n = Some 0%Q.
Proof.
  intros n Hn. unfold sin_pi_table.
  rewrite (rat_as_nat_hit _ 0 (zero_times_six n Hn)). reflexivity.
Qed.

Lemma sin_pi_table_old_zero : forall n, (n == 0)%Q -> sin_pi_table_old n = Some 0%Q.
Proof.
  intros n Hn. unfold sin_pi_table_old, rat_try_as_usize.
  rewrite (rat_as_nat_hit _ 0 (zero_times_six n Hn)). reflexivity.
Qed.

Lemma rat_fn_sin_exact : forall Fo q v,
  rat_fn Fo Fsin q = Ok v -> exb v = true -> (q == 0)%Q /\ exv v = 0%Q.
Proof.
  intros Fo q v. unfold rat_fn. destruct (qeq q 0) eqn:Hq.
  - intros H _. injection H as <-. split; [now apply Qeq_bool_eq|reflexivity].
  - intros H He. apply br_not_exact in H. congruence.
Qed.

Lemma qlt_spec : forall a b, qlt a b = true <-> (a < b)%Q.
Proof.
  intros a b. unfold qlt. rewrite Qlt_alt. destruct (a ?= b)%Q; split; congruence.
Qed.

Section TableSound.
  Variable tbl : Q -> option Q.
  Hypothesis tbl_sound : forall n v, tbl n = Some v -> Q2R v = sin (Q2R n * PI).
  Hypothesis tbl_zero : forall n, (n == 0)%Q -> tbl n = Some 0%Q.

  Lemma sin_with_pi_exact_sound : forall Fo n v,
    real_sin_with tbl Fo (RPi n) = Ok (mkEx v true) -> real_val v = sin (Q2R n * PI).
  Proof.
    intros Fo n v. unfold real_sin_with.
    set (neg := qlt n 0). set (n' := if neg then (- n)%Q else n).
    assert (Hn' : Q2R n' = if neg then - Q2R n else Q2R n).
    { unfold n'. destruct neg; [apply Q2R_opp|reflexivity]. }
    destruct (tbl n') as [t|] eqn:Ht.
    - intro H. injection H as <-. apply tbl_sound in Ht.
      rewrite Hn' in Ht. simpl. destruct neg.
      + rewrite Q2R_opp, Ht. replace (- Q2R n * PI) with (- (Q2R n * PI)) by lra.
        rewrite sin_neg. lra.
      + exact Ht.
    - destruct (rat_fn Fo Fsin (n' * pi_model)) as [w| |] eqn:Hw; simpl; try discriminate.
      intro H. injection H as Hv He.
      destruct (rat_fn_sin_exact _ _ _ Hw He) as [Hz _].
      apply Qmult_zero_r_inv in Hz; [|exact pi_model_pos].
      rewrite (tbl_zero _ Hz) in Ht. discriminate.
  Qed.
End TableSound.

Theorem sin_pi_exact_sound : forall Fo n v,
  real_sin Fo (RPi n) = Ok (mkEx v true) -> real_val v = sin (Q2R n * PI).
Proof. exact (sin_with_pi_exact_sound sin_pi_table sin_pi_table_sound sin_pi_table_zero). Qed.

Theorem sin_old_pi_exact_sound : forall Fo n v,
  real_sin_old Fo (RPi n) = Ok (mkEx v true) -> real_val v = sin (Q2R n * PI).
Proof. exact (sin_with_pi_exact_sound sin_pi_table_old sin_pi_table_old_sound sin_pi_table_old_zero). Qed.

Theorem sin_simple_exact_sound : forall Fo s v,
  real_sin Fo (RSimple s) = Ok (mkEx v true) -> real_val v = sin (Q2R s).
Proof.
  intros Fo s v. unfold real_sin, real_sin_with.
  destruct (rat_fn Fo Fsin s) as [w| |] eqn:Hw; simpl; try discriminate.
  intro H. injection H as Hv He.
  destruct (rat_fn_sin_exact _ _ _ Hw He) as [Hz Hw0].
  subst v. simpl. rewrite Hw0, Q2R_0.
  rewrite (Qeq_eqR _ _ Hz), Q2R_0. symmetry. apply sin_0.
Qed.

(* ------------------------------------------------------------------ *)
(* cos = sin (x + pi/2) *)

Lemma real_is_zero_spec : forall q, (Qnum q =? 0)%Z = true -> Q2R q = 0.
Proof.
  intros q H. apply Z.eqb_eq in H. unfold Q2R. rewrite H. lra.
Qed.

Lemma rat_add_correct : forall a b, (rat_add a b == a + b)%Q.
Proof.
  intros [na da] [nb db]. unfold rat_add. simpl Qden. simpl Qnum.
  destruct (Pos.eqb_spec da db) as [He|Hne].
  - subst db. unfold Qeq, Qplus. simpl. rewrite !Pos2Z.inj_mul. ring.
  - set (g := Z.gcd (Z.pos da) (Z.pos db)).
    assert (Hgpos : (0 < g)%Z).
    { unfold g. pose proof (Z.gcd_nonneg (Z.pos da) (Z.pos db)).
      assert (g <> 0)%Z; [|unfold g in *; lia].
      unfold g. intro Hc. apply Z.gcd_eq_0_l in Hc. discriminate. }
    destruct (Z.gcd_divide_l (Z.pos da) (Z.pos db)) as [a' Ha]. fold g in Ha.
    destruct (Z.gcd_divide_r (Z.pos da) (Z.pos db)) as [b' Hb]. fold g in Hb.
    assert (Ha' : (0 < a')%Z) by nia. assert (Hb' : (0 < b')%Z) by nia.
    assert (H1 : (na * Z.pos db / g = na * b')%Z).
    { rewrite Hb, Z.mul_assoc. apply Z.div_mul. lia. }
    assert (H2 : (nb * Z.pos da / g = nb * a')%Z).
    { rewrite Ha, Z.mul_assoc. apply Z.div_mul. lia. }
    assert (H3 : (Z.pos da * Z.pos db / g = Z.pos da * b')%Z).
    { rewrite Hb. rewrite Z.mul_assoc. apply Z.div_mul. lia. }
    rewrite H1, H2, H3.
    assert (Hm : (0 < Z.pos da * b')%Z) by (apply Z.mul_pos_pos; lia).
    set (m := (Z.pos da * b')%Z) in *.
    unfold Qeq, Qplus. cbn [Qnum Qden].
    rewrite Z2Pos.id by exact Hm. unfold m.
    rewrite Pos2Z.inj_mul, Ha, Hb. ring.
Qed.

Lemma cos_unfold : forall Fo r v,
  real_cos Fo r = Ok (mkEx v true) ->
  real_sin Fo (Model.cos_shift r) = Ok (mkEx v true) /\ snd (cos_shift_ex r) = true.
Proof.
  intros Fo r v. unfold real_cos.
  destruct (real_sin Fo (Model.cos_shift r)) as [w| |]; simpl; try discriminate.
  intro H. injection H as Hv He. apply Bool.andb_true_iff in He. destruct He as [He1 He2].
  split; [|exact He2]. destruct w as [wv wb]. simpl in *. subst. reflexivity.
Qed.

Theorem cos_pi_exact_sound : forall Fo n v,
  real_cos Fo (RPi n) = Ok (mkEx v true) -> real_val v = cos (Q2R n * PI).
Proof.
  intros Fo n v H. apply cos_unfold in H. destruct H as [H _].
  unfold Model.cos_shift, cos_shift_ex in H. simpl real_is_zero in H.
  destruct (Qnum n =? 0)%Z eqn:Hz; simpl fst in H.
  - apply sin_pi_exact_sound in H. rewrite H.
    rewrite (real_is_zero_spec _ Hz), Q2R_half.
    rewrite cos_sin. f_equal. lra.
  - apply sin_pi_exact_sound in H. rewrite H.
    rewrite (Qeq_eqR _ _ (rat_add_correct n (1 # 2))).
    rewrite Q2R_plus, Q2R_half. rewrite cos_sin. f_equal. lra.
Qed.

(* a rational argument: since fix commit bd3b9a9 the flag of x + pi_model/2
   is kept, so the result is exact only at x = 0 -- sound without exception *)
Theorem cos_simple_exact_sound : forall Fo a v,
  real_cos Fo (RSimple a) = Ok (mkEx v true) -> real_val v = cos (Q2R a).
Proof.
  intros Fo a v H. apply cos_unfold in H. destruct H as [H Hf].
  unfold Model.cos_shift, cos_shift_ex in *. simpl real_is_zero in *.
  destruct (Qnum a =? 0)%Z eqn:Hz; simpl fst in H; simpl snd in Hf; [|discriminate].
  apply sin_pi_exact_sound in H. rewrite H.
  rewrite (real_is_zero_spec _ Hz), Q2R_half, cos_sin. f_equal. lra.
Qed.

(* the code before that commit: sound except at x = -pi_model/2 *)
Theorem cos_old_simple_exact_except_known : forall Fo a v,
  ~ (a + (1 # 2) * pi_model == 0)%Q ->
  real_cos_old Fo (RSimple a) = Ok (mkEx v true) -> real_val v = cos (Q2R a).
Proof.
  intros Fo a v Hk. unfold real_cos_old, Model.cos_shift, cos_shift_ex. simpl real_is_zero.
  destruct (Qnum a =? 0)%Z eqn:Hz; simpl fst.
  - intro H. apply sin_old_pi_exact_sound in H. rewrite H.
    rewrite (real_is_zero_spec _ Hz), Q2R_half, cos_sin. f_equal. lra.
  - intro H. unfold real_sin_old, real_sin_with in H.
    destruct (rat_fn Fo Fsin (rat_add a ((1 # 2) * pi_model))) as [w| |] eqn:Hw; simpl in H; try discriminate.
    injection H as Hv He.
    destruct (rat_fn_sin_exact _ _ _ Hw He) as [Hz0 _].
    rewrite rat_add_correct in Hz0. contradiction.
Qed.

(* ------------------------------------------------------------------ *)
(* completeness: EVERY multiple of pi/6 whose sine is rational is answered
   from the table (no size limit since fix commit 06c1b45) *)

Definition good_residue (k : N) : bool :=
  negb ((k mod 12 =? 2) || (k mod 12 =? 4) || (k mod 12 =? 8) || (k mod 12 =? 10))%N.

Lemma sin_table_of_hit : forall k, good_residue k = true -> exists t, sin_table_of k = Some t.
Proof.
  intros k Hg. unfold sin_table_of. unfold good_residue in Hg.
  pose proof (mod12_cases k) as Hlt.
  assert (Hm6 : (k mod 6 = (k mod 12) mod 6)%N).
  { change 12%N with (6 * 2)%N. rewrite N.mod_mul_r by discriminate.
    rewrite N.add_mod, (N.mul_comm 6), N.mod_mul, N.add_0_r by discriminate.
    now rewrite !N.mod_mod by discriminate. }
  rewrite Hm6. clear Hm6.
  set (r := (k mod 12)%N) in *. clearbody r.
  assert (Hr : (r = 0 \/ r = 1 \/ r = 2 \/ r = 3 \/ r = 4 \/ r = 5 \/ r = 6 \/ r = 7
               \/ r = 8 \/ r = 9 \/ r = 10 \/ r = 11)%N) by lia.
  repeat (destruct Hr as [Hr|Hr]); subst r; try discriminate Hg; vm_compute; eexists; reflexivity.
Qed.

Lemma six_times : forall n (k : N), (n == Z.of_N k # 6)%Q -> (n * 6 == inject_Z (Z.of_N k))%Q.
Proof. intros n k Hn. rewrite Hn. unfold Qeq, inject_Z. simpl. lia. Qed.

Lemma sin_pi_table_hit : forall n (k : N),
  (n == Z.of_N k # 6)%Q -> good_residue k = true -> exists t, sin_pi_table n = Some t.
Proof.
  intros n k Hn Hg. unfold sin_pi_table.
  rewrite (rat_as_nat_hit _ k (six_times n k Hn)).
  rewrite rat_try_as_usize_small by (pose proof (mod12_cases k); lia).
  rewrite sin_table_of_mod12. apply sin_table_of_hit. exact Hg.
Qed.

Lemma sin_pi_table_old_hit : forall n (k : N), (k < 2 ^ 64)%N ->
  (n == Z.of_N k # 6)%Q -> good_residue k = true -> exists t, sin_pi_table_old n = Some t.
Proof.
  intros n k Hk Hn Hg. unfold sin_pi_table_old, rat_try_as_usize.
  rewrite (rat_as_nat_hit _ k (six_times n k Hn)).
  destruct (N.ltb_spec k usize_limit) as [_|Hc]; [|unfold usize_limit in Hc; lia].
  apply sin_table_of_hit. exact Hg.
Qed.

Lemma abs_multiple : forall (z : Z) (n : Q), (n == z # 6)%Q ->
  ((if qlt n 0 then (- n)%Q else n) == Z.of_N (Z.abs_N z) # 6)%Q.
Proof.
  intros z n Hn. rewrite N2Z.inj_abs_N. destruct (qlt n 0) eqn:Hneg.
  - apply qlt_spec in Hneg. rewrite Hn in *.
    unfold Qlt in Hneg. simpl in Hneg. unfold Qeq. simpl. lia.
  - assert (~ (n < 0)%Q) by (intro Hc; apply qlt_spec in Hc; congruence).
    rewrite Hn in *. unfold Qlt in H. simpl in H. unfold Qeq. simpl. lia.
Qed.

Theorem sin_special_lemma : forall Fo (z : Z) (n : Q),
  (n == z # 6)%Q -> good_residue (Z.abs_N z) = true ->
  exists v, real_sin Fo (RPi n) = Ok (mkEx (RSimple v) true)
            /\ Q2R v = sin (IZR z * PI / 6).
Proof.
  intros Fo z n Hn Hg.
  assert (Hex : exists v, real_sin Fo (RPi n) = Ok (mkEx (RSimple v) true)).
  { unfold real_sin, real_sin_with.
    destruct (sin_pi_table_hit _ (Z.abs_N z) (abs_multiple z n Hn) Hg) as [t Ht].
    rewrite Ht. eexists. reflexivity. }
  destruct Hex as [v Hv]. exists v. split; [exact Hv|].
  apply sin_pi_exact_sound in Hv. simpl in Hv. rewrite Hv.
  rewrite (Qeq_eqR _ _ Hn). unfold Q2R. simpl. f_equal. lra.
Qed.

(* the code before the commit needed |z| < 2^64 *)
Theorem sin_old_special_lemma : forall Fo (z : Z) (n : Q),
  (Z.abs z < 2 ^ 64)%Z -> (n == z # 6)%Q -> good_residue (Z.abs_N z) = true ->
  exists v, real_sin_old Fo (RPi n) = Ok (mkEx (RSimple v) true)
            /\ Q2R v = sin (IZR z * PI / 6).
Proof.
  intros Fo z n Hz Hn Hg.
  assert (Hex : exists v, real_sin_old Fo (RPi n) = Ok (mkEx (RSimple v) true)).
  { unfold real_sin_old, real_sin_with.
    destruct (sin_pi_table_old_hit (if qlt n 0 then (- n)%Q else n) (Z.abs_N z)) as [t Ht].
    - apply N2Z.inj_lt. rewrite N2Z.inj_abs_N. exact Hz.
    - apply abs_multiple. exact Hn.
    - exact Hg.
    - rewrite Ht. eexists. reflexivity. }
  destruct Hex as [v Hv]. exists v. split; [exact Hv|].
  apply sin_old_pi_exact_sound in Hv. simpl in Hv. rewrite Hv.
  rewrite (Qeq_eqR _ _ Hn). unfold Q2R. simpl. f_equal. lra.
Qed.

Lemma rat_add_sixth_half : forall z : Z, rat_add (z # 6) (1 # 2) = (z + 3 # 6)%Q.
Proof.
  intro z. unfold rat_add. cbn [Qnum Qden Pos.eqb].
  change (Z.gcd 6 2) with 2%Z. change (1 * 6 / 2)%Z with 3%Z.
  change (Z.to_pos (6 * 2 / 2)) with 6%positive.
  rewrite Z.div_mul by lia. reflexivity.
Qed.

Theorem cos_special_lemma : forall Fo (z : Z),
  good_residue (Z.abs_N (z + 3)) = true ->
  exists v, real_cos Fo (RPi (z # 6)) = Ok (mkEx (RSimple v) true)
            /\ Q2R v = cos (IZR z * PI / 6).
Proof.
  intros Fo z Hg.
  assert (Hex : exists v, real_cos Fo (RPi (z # 6)) = Ok (mkEx (RSimple v) true)).
  { unfold real_cos, Model.cos_shift, cos_shift_ex. simpl real_is_zero.
    destruct (z =? 0)%Z eqn:Hz0; simpl fst; simpl snd.
    - apply Z.eqb_eq in Hz0. subst z.
      destruct (sin_special_lemma Fo 3 (1 # 2)%Q ltac:(reflexivity) ltac:(reflexivity))
        as [v [Hv _]].
      rewrite Hv. exists v. reflexivity.
    - rewrite rat_add_sixth_half.
      destruct (sin_special_lemma Fo (z + 3) (z + 3 # 6)%Q ltac:(reflexivity) Hg) as [v [Hv _]].
      rewrite Hv. exists v. reflexivity. }
  destruct Hex as [v Hv]. exists v. split; [exact Hv|].
  apply cos_pi_exact_sound in Hv. simpl in Hv. rewrite Hv.
  unfold Q2R. simpl. f_equal. lra.
Qed.

Lemma good_residue_mul3 : forall k : N, good_residue (3 * k) = true.
Proof.
  intro k. unfold good_residue.
  assert (H : ((3 * k) mod 12 = 3 * (k mod 4))%N).
  { change 12%N with (3 * 4)%N. rewrite N.mul_mod_distr_l by discriminate. reflexivity. }
  rewrite H. pose proof (N.mod_lt k 4 ltac:(discriminate)) as Hlt.
  set (r := (k mod 4)%N) in *. clearbody r.
  assert (Hr : (r = 0 \/ r = 1 \/ r = 2 \/ r = 3)%N) by lia.
  repeat (destruct Hr as [Hr|Hr]); subst r; reflexivity.
Qed.
