(* C15 -- for arguments whose simplified numerator and denominator fit one
   64-bit limb, the conversion hypothesis [into_ok] of the conditional
   accuracy theorems is a theorem (Elem/RoundProofs.v): the only remaining
   hypothesis is the one about libm. *)
From FendV Require Import Base.Prelude Elem.Bridge Elem.Model Elem.BridgeProofs
  Elem.TrigReals Elem.RoundProofs Elem.Accuracy.
From Coq Require Import QArith Qreals Reals Lra Lia.
Open Scope R_scope.

Lemma IZR_pow2 : forall k : Z, (0 <= k)%Z -> IZR (2 ^ k) = p2 k.
Proof.
  intros k Hk. rewrite <- (Z2N.id k) at 2 by exact Hk. rewrite p2_of_N.
  unfold RN. rewrite N2Z.inj_pow, Z2N.id by exact Hk. reflexivity.
Qed.

Lemma IZR_sgnZ : forall s m, IZR (sgnZ s m) = (if s then -1 else 1) * RN m.
Proof. intros s m. unfold sgnZ, RN. destruct s; [rewrite opp_IZR|]; lra. Qed.

Lemma fl_R_flv : forall s m e, fl_R (FFin s m e) = flv (FFin s m e).
Proof.
  intros s m e. unfold fl_R, fl_valQ, flv.
  destruct (Z.leb_spec 0 e) as [He|He].
  - rewrite Q2R_inject_Z, mult_IZR, IZR_sgnZ, IZR_pow2 by exact He. ring.
  - unfold Q2R. cbn [Qnum Qden].
    assert (Hp : (0 < 2 ^ (- e))%Z) by (apply Z.pow_pos_nonneg; lia).
    rewrite Z2Pos.id by exact Hp. rewrite IZR_sgnZ, IZR_pow2 by lia.
    assert (Hinv : / p2 (- e) = p2 e).
    { pose proof (p2_pos (- e)). apply Rmult_eq_reg_l with (p2 (- e)); [|lra].
      rewrite Rinv_r by lra. rewrite <- p2_add. replace (- e + e)%Z with 0%Z by lia.
      symmetry. apply p2_0. }
    rewrite Hinv. ring.
Qed.

Definition small_operands (q : Q) : Prop :=
  (Z.abs (Qnum (Qred q)) < 2 ^ 64)%Z /\ (Z.pos (Qden (Qred q)) < 2 ^ 64)%Z.

Theorem into_ok_small : forall q, small_operands q -> into_ok (/ 2 ^ 50) q.
Proof.
  intros q [Hn Hd]. unfold into_ok.
  destruct (Z.eq_dec (Qnum q) 0) as [Hz|Hnz].
  - unfold into_f64. rewrite Hz. simpl (0 =? 0)%Z. cbv iota.
    unfold fl_zero. rewrite fl_R_flv. cbn [flv].
    assert (Hq0 : Q2R q = 0) by (unfold Q2R; rewrite Hz; lra).
    rewrite Hq0. replace (RN 0) with 0 by reflexivity.
    replace (1 * (0 * p2 0) - 0) with 0 by ring. rewrite Rabs_R0. lra.
  - pose proof (into_f64_small_accurate q Hnz Hn Hd) as H.
    assert (Hfin : exists s m e, into_f64 q = FFin s m e).
    { (* the result of the three roundings is finite: read it off the proof's shape *)
      unfold into_f64. destruct (Z.eqb_spec (Qnum q) 0) as [Hc|_]; [contradiction|].
      set (r := Qred q) in *.
      assert (Hnr : (0 < q_num_abs r < 2 ^ 64)%N).
      { unfold q_num_abs. split; [|lia].
        assert (Qnum r <> 0)%Z; [|lia].
        intro Hc. pose proof (Qred_correct q) as Hq. fold r in Hq. unfold Qeq in Hq. rewrite Hc in Hq. lia. }
      assert (Hdr : (0 < q_den r < 2 ^ 64)%N) by (unfold q_den; lia).
      destruct (as_f64_small _ Hnr) as [Hgx _]. destruct (as_f64_small _ Hdr) as [Hgy _].
      destruct (fl_div_good _ _ Hgx Hgy) as [m [e [Hdiv _]]]. rewrite Hdiv.
      destruct (q_neg r); [exists (negb false), m, e|exists false, m, e]; reflexivity. }
    destruct Hfin as [s [m [e Hfin]]]. rewrite Hfin in *. rewrite fl_R_flv. exact H.
Qed.

(* sin and atan of a rational with one-limb numerator and denominator,
   |q| <= 1000: the only hypothesis left is the libm one *)
Theorem accuracy_sin_small : forall Fo q,
  Rabs (Q2R q) <= 1000 -> small_operands q ->
  libm_ok (Fo Fsin) sin (/ 2 ^ 52) (into_f64 q) ->
  exists v, real_fn Fo Fsin (RSimple q) = Ok v /\
            within_budget (real_val (exv v)) (true_fn Fsin (Q2R q)).
Proof.
  intros Fo q Hq Hs Hl. apply accuracy_partial_sin; try assumption.
  apply into_ok_small. exact Hs.
Qed.

Theorem accuracy_atan_small : forall Fo q,
  Rabs (Q2R q) <= 1000 -> small_operands q ->
  libm_ok (Fo Fatan) atan (/ 2 ^ 52) (into_f64 q) ->
  exists v, real_fn Fo Fatan (RSimple q) = Ok v /\
            within_budget (real_val (exv v)) (true_fn Fatan (Q2R q)).
Proof.
  intros Fo q Hq Hs Hl. apply accuracy_partial_atan; try assumption.
  apply into_ok_small. exact Hs.
Qed.
