(* C15 -- log2 / ln / log10: BigRat::log2 does not go through into_f64 but
   through BigUint::log2 of the stored numerator and denominator:
       log2 n = (bits - 1) as f64  +  libm_log2 ( as_f64(2n) / as_f64(2^bits) )
   and then  num.log2 - den.log2  in f64, from_f64, and for ln / log10 a
   rational division by from_f64(LOG2_E) resp. from_f64(LOG2_10).
   This file analyses that path; the only premise is about libm's log2 at the
   two consulted points. *)
From FendV Require Import Base.Prelude Elem.Bridge Elem.Model Elem.BridgeProofs
  Elem.TrigReals Elem.PointDefs Elem.RootProofs Elem.RoundProofs Elem.RoundMulti Elem.Accuracy
  Elem.AccuracySmall Elem.AccuracyMulti.
From Coq Require Import QArith Qreals Reals Lra Lia.
From Interval Require Import Tactic.
Open Scope R_scope.

(* ------------------------------------------------------------------ *)
(* fl_add on finite floats of any sign *)

Lemma flv_sgn : forall s m e, flv (FFin s m e) = IZR (sgnZ s m) * p2 e.
Proof. intros s m e. cbn [flv]. rewrite IZR_sgnZ. ring. Qed.

Lemma fl_add_signed_spec : forall s1 m1 e1 s2 m2 e2,
  let S := flv (FFin s1 m1 e1) + flv (FFin s2 m2 e2) in
  (S = 0 -> exists s, fl_add (FFin s1 m1 e1) (FFin s2 m2 e2) = FFin s 0 0) /\
  (p2 (-1000) <= Rabs S -> Rabs S <= 3 / 2 * p2 1023 ->
   exists s m e, fl_add (FFin s1 m1 e1) (FFin s2 m2 e2) = FFin s m e /\
                 (2 ^ 52 <= m <= 2 ^ 53)%N /\
                 Rabs (flv (FFin s m e) - S) <= u53 * Rabs S).
Proof.
  intros s1 m1 e1 s2 m2 e2 S. unfold fl_add.
  set (emin := Z.min e1 e2).
  set (z := (sgnZ s1 m1 * 2 ^ (e1 - emin) + sgnZ s2 m2 * 2 ^ (e2 - emin))%Z).
  assert (HS : S = IZR z * p2 emin).
  { unfold S, z. rewrite !flv_sgn, plus_IZR, !mult_IZR.
    rewrite !IZR_pow2 by (unfold emin; lia).
    replace e1 with ((e1 - emin) + emin)%Z at 1 by lia.
    replace e2 with ((e2 - emin) + emin)%Z at 1 by lia. rewrite !p2_add. ring. }
  pose proof (p2_pos emin) as Hpe.
  split.
  - intro H0. assert (Hz : z = 0%Z).
    { rewrite HS in H0. apply Rmult_integral in H0. destruct H0 as [H0|H0]; [|lra].
      apply eq_IZR_R0. exact H0. }
    rewrite Hz. simpl (0 =? 0)%Z. cbv iota. eexists. reflexivity.
  - intros Hlo Hhi.
    assert (Hznz : z <> 0%Z).
    { intro Hc. rewrite Hc in HS. simpl in HS. rewrite Rmult_0_l in HS. rewrite HS, Rabs_R0 in Hlo.
      pose proof (p2_pos (-1000)). lra. }
    destruct (Z.eqb_spec z 0) as [Hc|_]; [contradiction|].
    set (zn := Z.abs_N z).
    assert (Hznpos : (0 < zn)%N) by (unfold zn; lia).
    assert (Habs : Rabs S = RN zn * p2 emin / RN 1).
    { rewrite HS, Rabs_mult, (Rabs_right (p2 emin)) by lra.
      unfold zn, RN at 1. rewrite N2Z.inj_abs_N, abs_IZR, RN_1. field. }
    destruct (round_pos_value (z <? 0)%Z zn 1 emin Hznpos ltac:(lia)) as [m [e [Hr [Hm [Herr _]]]]];
      try (rewrite <- Habs; assumption).
    rewrite <- Habs in Herr.
    exists (z <? 0)%Z, m, e. split; [exact Hr|]. split; [exact Hm|].
    cbn [flv].
    destruct (Z.ltb_spec z 0) as [Hneg|Hpos].
    + assert (HSn : S = - Rabs S).
      { rewrite HS. rewrite Rabs_mult, (Rabs_right (p2 emin)) by lra.
        assert (IZR z < 0) by (apply IZR_lt; exact Hneg). rewrite Rabs_left by assumption. ring. }
      rewrite HSn at 1.
      replace (-1 * (RN m * p2 e) - - Rabs S) with (- (RN m * p2 e - Rabs S)) by ring.
      rewrite Rabs_Ropp. exact Herr.
    + assert (HSn : S = Rabs S).
      { rewrite HS. rewrite Rabs_mult, (Rabs_right (p2 emin)) by lra.
        assert (0 <= IZR z) by (apply IZR_le; exact Hpos). rewrite Rabs_right by lra. ring. }
      rewrite HSn at 1.
      replace (1 * (RN m * p2 e) - Rabs S) with (RN m * p2 e - Rabs S) by ring. exact Herr.
Qed.

Lemma p2_le_inv : forall a b, p2 a <= p2 b -> (a <= b)%Z.
Proof.
  intros a b H. destruct (Z.le_gt_cases a b) as [Hc|Hc]; [exact Hc|].
  assert (p2 b < p2 a).
  { replace a with (b + 1 + (a - b - 1))%Z by lia. rewrite p2_add, p2_succ.
    pose proof (p2_pos b). pose proof (p2_ge_1 (a - b - 1) ltac:(lia)). nra. }
  lra.
Qed.

(* a non-zero sum of two floats whose exponents are at least -960 is at least
   2^-960 in magnitude (it is an integer multiple of 2^emin) *)
Lemma sum_nonzero_big : forall s1 m1 e1 s2 m2 e2,
  (-960 <= e1)%Z -> (-960 <= e2)%Z ->
  let S := flv (FFin s1 m1 e1) + flv (FFin s2 m2 e2) in
  S <> 0 -> p2 (-1000) <= Rabs S.
Proof.
  intros s1 m1 e1 s2 m2 e2 H1 H2 S HS0.
  set (emin := Z.min e1 e2).
  set (z := (sgnZ s1 m1 * 2 ^ (e1 - emin) + sgnZ s2 m2 * 2 ^ (e2 - emin))%Z).
  assert (HS : S = IZR z * p2 emin).
  { unfold S, z. rewrite !flv_sgn, plus_IZR, !mult_IZR.
    rewrite !IZR_pow2 by (unfold emin; lia).
    replace e1 with ((e1 - emin) + emin)%Z at 1 by lia.
    replace e2 with ((e2 - emin) + emin)%Z at 1 by lia. rewrite !p2_add. ring. }
  pose proof (p2_pos emin) as Hpe.
  assert (Hz : z <> 0%Z) by (intro Hc; apply HS0; rewrite HS, Hc; simpl; ring).
  assert (1 <= Rabs (IZR z)).
  { rewrite <- abs_IZR. apply IZR_le. lia. }
  rewrite HS, Rabs_mult, (Rabs_right (p2 emin)) by lra.
  pose proof (p2_le (-1000) emin ltac:(unfold emin; lia)). nra.
Qed.

(* exponent of a normalised float from a lower bound on its value *)
Lemma pgood_exp_lower : forall m e a, (m <= 2 ^ 53)%N -> p2 a <= RN m * p2 e -> (a - 53 <= e)%Z.
Proof.
  intros m e a Hm H. apply RN_le in Hm. rewrite RN_2_53 in Hm.
  pose proof (p2_pos e).
  assert (H53 : p2 53 = 2 ^ 53) by (change (p2 53) with (powerRZ 2 53); simpl; lra).
  assert (p2 a <= p2 (53 + e)) by (rewrite p2_add, H53; nra).
  apply p2_le_inv in H1. lia.
Qed.

(* ------------------------------------------------------------------ *)
(* BigUint::log2 *)

(* libm's log2 at one consulted point: finite, within 2^-52 (the value is in
   [-1e-13, 1]), and not a denormal-sized non-zero number *)
Definition libm_log2_ok (F : oracle) (x : fl) : Prop :=
  exists s m e, fl_of_bits (F (fl_bits x)) = FFin s m e /\ (-1074 <= e)%Z /\
    Rabs (flv (FFin s m e) - log2 (flv x)) <= / 2 ^ 52 /\
    (flv (FFin s m e) = 0 \/ p2 (-900) <= Rabs (flv (FFin s m e))).

(* the f64 on which BigUint::log2 n consults libm *)
Definition log2_query_fl (n : N) : fl :=
  let bits := N.size n in
  let k := ((bits + 1) - 1023)%N in
  fl_div (as_f64 (N.shiftr (2 * n) k)) (as_f64 (N.shiftr (2 ^ bits) k)).

Lemma log2_query_bits : forall n, biguint_log2_query n = fl_bits (log2_query_fl n).
Proof. reflexivity. Qed.

Lemma size_bounds : forall n, (0 < n)%N -> (2 ^ (N.size n - 1) <= n < 2 ^ N.size n)%N /\ (1 <= N.size n)%N.
Proof.
  intros n Hn. rewrite N.size_log2 by lia. pose proof (N.log2_spec n Hn) as [H1 H2].
  replace (N.succ (N.log2 n) - 1)%N with (N.log2 n) by lia. repeat split; try assumption. lia.
Qed.

Lemma ln_1p_small : forall t, Rabs t <= / 2 ^ 45 -> Rabs (ln (1 + t) / ln 2) <= / 2 ^ 44.
Proof.
  intros t Ht. apply Rabs_le_inv in Ht. apply Rabs_le. split; interval with (i_prec 100).
Qed.

Lemma log2_mult : forall a b, 0 < a -> 0 < b -> log2 (a * b) = log2 a + log2 b.
Proof. intros a b Ha Hb. unfold log2. rewrite ln_mult by assumption. field. interval with (i_prec 64). Qed.

Lemma log2_p2N : forall k : N, log2 (RN (2 ^ k)) = RN k.
Proof.
  intro k. unfold RN. rewrite N2Z.inj_pow. change (Z.of_N 2) with 2%Z.
  rewrite <- (Z2Nat.id (Z.of_N k)) at 1 by lia. rewrite <- pow_IZR.
  rewrite log2_pow. rewrite INR_IZR_INZ, Z2Nat.id by lia. reflexivity.
Qed.

Definition zero_or_good (x : fl) : Prop :=
  exists s m e, x = FFin s m e /\ (-960 <= e)%Z /\
    (m = 0%N \/ ((2 ^ 52 <= m <= 2 ^ 53)%N)).

Theorem biguint_log2_spec : forall F n, (0 < n < 2 ^ 1022)%N ->
  libm_log2_ok F (log2_query_fl n) ->
  zero_or_good (biguint_log2 F n) /\
  Rabs (flv (biguint_log2 F n) - log2 (RN n)) <= / 2 ^ 41.
Proof.
  intros F n [Hn0 Hn] Hlib.
  destruct (size_bounds n Hn0) as [[Hs1 Hs2] Hs3].
  set (bits := N.size n) in *.
  assert (Hbits : (bits <= 1022)%N).
  { unfold bits. rewrite N.size_log2 by lia.
    assert (N.log2 n < 1022)%N; [|lia]. apply N.log2_lt_pow2; lia. }
  assert (Hk : ((bits + 1) - 1023 = 0)%N) by lia.
  unfold biguint_log2. fold bits. unfold log2_query_fl in Hlib. fold bits in Hlib.
  rewrite Hk in *. rewrite !N.shiftr_0_r in *.
  (* the two conversions and the quotient *)
  assert (H2n : (0 < 2 * n < 2 ^ 1023)%N) by (change (2 ^ 1023)%N with (2 * 2 ^ 1022)%N; lia).
  assert (Hpb : (0 < 2 ^ bits < 2 ^ 1023)%N).
  { split; [apply N.neq_0_lt_0, N.pow_nonzero; discriminate|]. apply N.pow_lt_mono_r; lia. }
  destruct (as_f64_multi (2 * n) H2n) as [m1 [e1 [Hx [Hm1 Hex]]]].
  destruct (as_f64_multi (2 ^ bits) Hpb) as [m2 [e2 [Hy [Hm2 Hey]]]].
  rewrite Hx, Hy in *.
  pose proof (RN_pos (2 * n) ltac:(lia)) as Hnp. pose proof (RN_pos (2 ^ bits) ltac:(lia)) as Hdp.
  pose proof Ek_32_small as HE. pose proof u53_pos as Hu.
  assert (Hu' : u53 <= / 2 ^ 50) by (unfold u53; interval with (i_prec 64)).
  set (X := RN m1 * p2 e1) in *. set (Y := RN m2 * p2 e2) in *.
  set (r := RN (2 * n) / RN (2 ^ bits)).
  assert (Hr : 1 <= r < 2).
  { unfold r. split.
    - apply Rmult_le_reg_r with (RN (2 ^ bits)); [exact Hdp|]. unfold Rdiv. rewrite Rmult_assoc, Rinv_l, Rmult_1_l, Rmult_1_r by lra.
      apply RN_le. replace bits with (N.succ (bits - 1)) at 1 by lia. rewrite N.pow_succ_r'. lia.
    - apply Rmult_lt_reg_r with (RN (2 ^ bits)); [exact Hdp|]. unfold Rdiv. rewrite Rmult_assoc, Rinv_l, Rmult_1_r by lra.
      replace 2 with (RN 2) by reflexivity. rewrite <- RN_mul. apply RN_lt. lia. }
  set (fa := X / RN (2 * n)). set (fb := Y / RN (2 ^ bits)).
  assert (Hfa : 1 - 33 * u53 <= fa <= 1 + 33 * u53).
  { apply rel_bounds; [exact Hnp|]. eapply Rle_trans; [exact Hex|]. apply Rmult_le_compat_r; lra. }
  assert (Hfb : 1 - 33 * u53 <= fb <= 1 + 33 * u53).
  { apply rel_bounds; [exact Hdp|]. eapply Rle_trans; [exact Hey|]. apply Rmult_le_compat_r; lra. }
  assert (HXp : 0 < X) by (unfold fa in Hfa; assert (0 < X / RN (2 * n)) by lra;
                           replace X with (X / RN (2 * n) * RN (2 * n)) by (field; lra); apply Rmult_lt_0_compat; lra).
  assert (HYp : 0 < Y) by (unfold fb in Hfb; assert (0 < Y / RN (2 ^ bits)) by lra;
                           replace Y with (Y / RN (2 ^ bits) * RN (2 ^ bits)) by (field; lra); apply Rmult_lt_0_compat; lra).
  assert (HXY : X / Y = r * (fa / fb)) by (unfold r, fa, fb; field; repeat split; lra).
  assert (Hratio : 1 / 2 <= fa / fb <= 3 / 2) by (unfold u53 in *; split; interval with (i_prec 100)).
  assert (Hm1p : (0 < m1)%N) by (destruct Hm1 as [H _]; eapply N.lt_le_trans; [|exact H]; reflexivity).
  assert (Hm2p : (0 < m2)%N) by (destruct Hm2 as [H _]; eapply N.lt_le_trans; [|exact H]; reflexivity).
  pose proof p2_m1000_small as Hsm.
  assert (Hbig : 1024 <= p2 1023).
  { pose proof (p2_le 10 1023 ltac:(lia)) as Hb.
    assert (H210 : p2 10 = 1024) by (change 10%Z with (Z.of_N 10); rewrite p2_of_N; unfold RN; change (Z.of_N (2 ^ 10)) with 1024%Z; lra). lra. }
  assert (Hprod : 1 / 2 <= r * (fa / fb) <= 3).
  { destruct Hr as [Hr1 Hr2]. destruct Hratio as [Hw1 Hw2]. set (w := fa / fb) in *. clearbody w. clear HXY.
    split.
    - replace (1 / 2) with (1 * (1 / 2)) by lra. apply Rmult_le_compat; lra.
    - replace 3 with (2 * (3 / 2)) by lra. apply Rmult_le_compat; lra. }
  destruct (fl_div_pos_spec m1 e1 m2 e2 Hm1p Hm2p) as [[mq [eq [Hdiv _]]] Herrq]; fold X Y.
  { rewrite HXY. lra. } { rewrite HXY. lra. }
  fold X Y in Herrq. rewrite Hdiv in *. rewrite flv_pos in Herrq.
  set (Rq := RN mq * p2 eq) in *.
  set (fd := Rq / (X / Y)).
  assert (HXYp : 0 < X / Y) by (apply Rdiv_lt_0_compat; assumption).
  assert (Hfd : 1 - u53 <= fd <= 1 + u53) by (apply rel_bounds; assumption).
  set (t := fa / fb * fd - 1).
  assert (HRq : Rq = r * (1 + t)) by (unfold t, fd; rewrite HXY; field; repeat split; lra).
  assert (Ht : Rabs t <= / 2 ^ 45) by (unfold t, u53 in *; interval with (i_prec 100)).
  (* libm *)
  destruct Hlib as [sy [my [ey [Hyb [Hey0 [Hyacc Hynz]]]]]]. rewrite Hyb.
  rewrite flv_pos in Hyacc. fold Rq in Hyacc.
  set (yv := flv (FFin sy my ey)) in *.
  assert (Ht' : -1 / 2 <= t <= 1 / 2).
  { apply Rabs_le_inv in Ht. assert (/ 2 ^ 45 <= 1 / 2) by (interval with (i_prec 64)). lra. }
  assert (Hlr : log2 Rq = log2 r + ln (1 + t) / ln 2).
  { rewrite HRq, log2_mult by lra. reflexivity. }
  pose proof (ln_1p_small t Ht) as Hl1.
  (* the integer part *)
  assert (HI : exists mi ei, fl_of_N (bits - 1) = FFin false mi ei /\ (-960 <= ei)%Z /\
                 Rabs (RN mi * p2 ei - RN (bits - 1)) <= 1022 * u53 /\
                 (bits = 1%N -> mi = 0%N)).
  { destruct (N.eq_dec bits 1) as [Hb1|Hb1].
    - rewrite Hb1. exists 0%N, 0%Z. split; [reflexivity|]. split; [lia|]. split; [|reflexivity].
      replace (RN (1 - 1)) with 0 by reflexivity. replace (RN 0) with 0 by reflexivity.
      rewrite Rmult_0_l, Rminus_0_r, Rabs_R0. lra.
    - destruct (fl_of_N_spec (bits - 1)) as [[mi [ei [Hxi [_ Hei]]]] Herri].
      { split; [lia|]. eapply N.lt_le_trans with (2 ^ 10)%N; [|apply N.pow_le_mono_r; lia]. simpl. lia. }
      rewrite Hxi in *. rewrite flv_pos in Herri. exists mi, ei. split; [reflexivity|]. split; [lia|].
      split; [|intro; contradiction].
      eapply Rle_trans; [exact Herri|]. rewrite Rmult_comm. apply Rmult_le_compat_r; [lra|].
      replace 1022 with (RN 1022) by (unfold RN; simpl; lra). apply RN_le. lia. }
  destruct HI as [mi [ei [HIx [Hei [HIerr HI1]]]]]. rewrite HIx.
  set (Iv := RN mi * p2 ei) in *.
  (* the true value *)
  assert (Htrue : log2 (RN n) = RN (bits - 1) + log2 r).
  { assert (Hn2 : RN n = RN (2 ^ (bits - 1)) * r).
    { unfold r. rewrite RN_mul.
      assert (Hpp : RN (2 ^ bits) = 2 * RN (2 ^ (bits - 1))).
      { replace bits with (N.succ (bits - 1)) at 1 by lia. rewrite N.pow_succ_r', RN_mul. reflexivity. }
      rewrite Hpp. replace (RN 2) with 2 by reflexivity.
      pose proof (RN_pos (2 ^ (bits - 1)) ltac:(apply N.neq_0_lt_0, N.pow_nonzero; discriminate)). field. lra. }
    rewrite Hn2, log2_mult.
    - rewrite log2_p2N. reflexivity.
    - apply RN_pos. apply N.neq_0_lt_0, N.pow_nonzero. discriminate.
    - lra. }
  set (S := flv (FFin false mi ei) + yv).
  assert (HSI : flv (FFin false mi ei) = Iv) by apply flv_pos.
  assert (HSerr : Rabs (S - log2 (RN n)) <= / 2 ^ 43 + / 2 ^ 44 + / 2 ^ 52).
  { unfold S. rewrite HSI, Htrue.
    replace (Iv + yv - (RN (bits - 1) + log2 r))
      with ((Iv - RN (bits - 1)) + (yv - log2 Rq) + (log2 Rq - log2 r)) by ring.
    replace (log2 Rq - log2 r) with (ln (1 + t) / ln 2) by (rewrite Hlr; ring).
    eapply Rle_trans; [apply Rabs_triang|]. eapply Rle_trans; [apply Rplus_le_compat_r; apply Rabs_triang|].
    assert (1022 * u53 <= / 2 ^ 43) by (unfold u53; interval with (i_prec 64)). lra. }
  assert (Hlogn : 0 <= log2 (RN n) <= 1022).
  { rewrite Htrue. assert (0 <= log2 r < 1).
    { unfold log2. destruct Hr as [Hr1 Hr2]. split.
      - apply Rmult_le_pos; [|left; apply Rinv_0_lt_compat; interval with (i_prec 64)].
        rewrite <- ln_1. destruct (Rle_lt_or_eq_dec 1 r Hr1) as [Hl|He]; [left; apply ln_increasing; lra|rewrite <- He; right; reflexivity].
      - assert (ln r < ln 2) by (apply ln_increasing; lra).
        assert (0 < ln 2) by (interval with (i_prec 64)).
        apply Rmult_lt_reg_r with (ln 2); [lra|]. unfold Rdiv. rewrite Rmult_assoc, Rinv_l by lra. lra. }
    assert (0 <= RN (bits - 1) <= 1021).
    { split; [unfold RN; apply IZR_le; lia|]. replace 1021 with (RN 1021) by (unfold RN; simpl; lra). apply RN_le. lia. }
    lra. }
  assert (Hsmall3 : / 2 ^ 43 + / 2 ^ 44 + / 2 ^ 52 <= / 2 ^ 42) by (interval with (i_prec 64)).
  destruct (fl_add_signed_spec false mi ei sy my ey) as [Hzero Hnonzero]. fold yv S in Hzero, Hnonzero.
  destruct (Req_dec S 0) as [HS0|HS0].
  - destruct (Hzero HS0) as [sr Hr0]. rewrite Hr0. split.
    + exists sr, 0%N, 0%Z. split; [reflexivity|]. split; [lia|]. left. reflexivity.
    + cbn [flv]. replace (RN 0) with 0 by reflexivity.
      replace ((if sr then -1 else 1) * (0 * p2 0) - log2 (RN n)) with (S - log2 (RN n)) by (rewrite HS0; ring).
      assert (/ 2 ^ 42 <= / 2 ^ 41) by (interval with (i_prec 64)). lra.
  - assert (HSabs : p2 (-900) <= Rabs S /\ Rabs S <= 1024).
    { apply Rabs_le_inv in HSerr. split.
      - destruct (N.eq_dec bits 1) as [Hb1|Hb1].
        + assert (Hmi0 : mi = 0%N) by (apply HI1; exact Hb1).
          assert (HSy : S = yv).
          { unfold S. rewrite HSI. unfold Iv. rewrite Hmi0. replace (RN 0) with 0 by reflexivity. ring. }
          rewrite HSy in *. destruct Hynz as [Hc|Hc]; [contradiction|exact Hc].
        + assert (1 <= log2 (RN n)).
          { rewrite Htrue. assert (1 <= RN (bits - 1)) by (apply RN_ge_1; lia).
            assert (0 <= log2 r).
            { unfold log2. destruct Hr as [Hr1 _].
              apply Rmult_le_pos; [|left; apply Rinv_0_lt_compat; interval with (i_prec 64)].
              rewrite <- ln_1. destruct (Rle_lt_or_eq_dec 1 r Hr1) as [Hl|He]; [left; apply ln_increasing; lra|rewrite <- He; right; reflexivity]. }
            lra. }
          assert (p2 (-900) <= / 2).
          { pose proof (p2_le (-900) (-1) ltac:(lia)) as Hpm.
            assert (H21 : p2 1 = 2) by (replace 1%Z with (0 + 1)%Z by lia; rewrite p2_succ, p2_0; lra).
            replace (-1)%Z with (- (1))%Z in Hpm by lia. rewrite p2_neg, H21 in Hpm. lra. }
          rewrite Rabs_right; lra.
      - apply Rabs_le. lra. }
    destruct HSabs as [HSlo HShi].
    pose proof (p2_le (-1000) (-900) ltac:(lia)) as Hp9.
    destruct (Hnonzero ltac:(lra) ltac:(lra)) as [sr [mr [er [Hrr [Hmr Herr]]]]].
    rewrite Hrr. split.
    + exists sr, mr, er. split; [reflexivity|]. split; [|right; exact Hmr].
      (* exponent lower bound from the size of the value *)
      assert (Hval : p2 (-901) <= RN mr * p2 er).
      { cbn [flv] in Herr. apply Rabs_le_inv in Herr.
        assert (Habsr : Rabs ((if sr then -1 else 1) * (RN mr * p2 er)) = RN mr * p2 er).
        { pose proof (p2_pos er). assert (0 <= RN mr) by (unfold RN; apply IZR_le; lia).
          rewrite Rabs_mult. destruct sr; [rewrite Rabs_left by lra|rewrite Rabs_right by lra];
          rewrite Rabs_right by nra; ring. }
        assert (Hge : Rabs S * (1 - u53) <= RN mr * p2 er).
        { rewrite <- Habsr.
          assert (Rabs S - Rabs ((if sr then -1 else 1) * (RN mr * p2 er)) <= u53 * Rabs S).
          { eapply Rle_trans; [apply Rabs_triang_inv|]. rewrite Rabs_minus_sym. apply Rabs_le. exact Herr. }
          lra. }
        assert (Hp901 : p2 (-900) = 2 * p2 (-901)) by (replace (-900)%Z with (-901 + 1)%Z by lia; apply p2_succ).
        pose proof (p2_pos (-901)). nra. }
      pose proof (pgood_exp_lower mr er (-901) ltac:(lia) Hval). lia.
    + replace (flv (FFin sr mr er) - log2 (RN n)) with ((flv (FFin sr mr er) - S) + (S - log2 (RN n))) by ring.
      eapply Rle_trans; [apply Rabs_triang|].
      assert (u53 * Rabs S <= / 2 ^ 43).
      { eapply Rle_trans; [apply Rmult_le_compat_l; [lra|exact HShi]|]. unfold u53. interval with (i_prec 64). }
      assert (/ 2 ^ 43 + / 2 ^ 42 <= / 2 ^ 41) by (interval with (i_prec 64)). lra.
Qed.

(* ------------------------------------------------------------------ *)
(* BigRat::log2 = num.log2 - den.log2 *)

Lemma log2_RN_bounds : forall n, (0 < n < 2 ^ 1022)%N -> 0 <= log2 (RN n) <= 1022.
Proof.
  intros n [H0 H1]. pose proof (RN_ge_1 n H0) as Hn1.
  assert (Hln2 : 0 < ln 2) by (interval with (i_prec 64)).
  unfold log2. split.
  - apply Rmult_le_pos; [|left; apply Rinv_0_lt_compat; exact Hln2].
    rewrite <- ln_1. destruct (Rle_lt_or_eq_dec 1 (RN n) Hn1) as [Hl|He]; [left; apply ln_increasing; lra|rewrite <- He; right; reflexivity].
  - pose proof (log2_p2N 1022) as Hp. unfold log2 in Hp.
    replace (RN 1022) with 1022 in Hp by (unfold RN; simpl; lra). rewrite <- Hp.
    apply Rmult_le_compat_r; [left; apply Rinv_0_lt_compat; exact Hln2|].
    left. apply ln_increasing; [lra|]. apply RN_lt. exact H1.
Qed.

Lemma log2_div : forall a b, 0 < a -> 0 < b -> log2 (a / b) = log2 a - log2 b.
Proof.
  intros a b Ha Hb. unfold log2. change (a / b) with (a * / b). rewrite ln_mult by (try assumption; apply Rinv_0_lt_compat; assumption).
  rewrite ln_Rinv by assumption. field. interval with (i_prec 64).
Qed.

Lemma flv_neg : forall s m e, flv (fl_neg (FFin s m e)) = - flv (FFin s m e).
Proof. intros s m e. cbn [fl_neg flv]. destruct s; simpl; ring. Qed.

Theorem rat_log2_accurate : forall Fo q,
  (0 < Qnum q)%Z -> (Qnum q < 2 ^ 1022)%Z -> (Z.pos (Qden q) < 2 ^ 1022)%Z ->
  libm_log2_ok (Fo Flog2) (log2_query_fl (q_num_abs q)) ->
  libm_log2_ok (Fo Flog2) (log2_query_fl (q_den q)) ->
  exists v, rat_log2 Fo q = Ok v /\ Rabs (Q2R v - log2 (Q2R q)) <= / 2 ^ 39 /\
            Rabs (log2 (Q2R q)) <= 1022.
Proof.
  intros Fo q Hq0 Hqn Hqd Hl1 Hl2. unfold rat_log2.
  assert (Hle : qle q 0 = false).
  { unfold qle. assert (Hgt : (q ?= 0)%Q = Gt).
    { apply Qgt_alt. unfold Qlt. simpl. lia. }
    rewrite Hgt. reflexivity. }
  rewrite Hle.
  set (n := q_num_abs q) in *. set (d := q_den q) in *.
  assert (Hn : (0 < n < 2 ^ 1022)%N).
  { unfold n, q_num_abs. split; [lia|]. apply N2Z.inj_lt. rewrite N2Z.inj_abs_N, Z.abs_eq by lia.
    change (Z.of_N (2 ^ 1022)) with (2 ^ 1022)%Z. exact Hqn. }
  assert (Hd : (0 < d < 2 ^ 1022)%N).
  { unfold d, q_den. split; [lia|]. apply N2Z.inj_lt. simpl Z.of_N at 1.
    change (Z.of_N (2 ^ 1022)) with (2 ^ 1022)%Z. exact Hqd. }
  destruct (biguint_log2_spec (Fo Flog2) n Hn Hl1) as [[s1 [m1 [e1 [Hx1 [He1 Hg1]]]]] Herr1].
  destruct (biguint_log2_spec (Fo Flog2) d Hd Hl2) as [[s2 [m2 [e2 [Hx2 [He2 Hg2]]]]] Herr2].
  rewrite Hx1, Hx2 in *. unfold fl_sub. cbn [fl_neg].
  pose proof (log2_RN_bounds n Hn) as Hb1. pose proof (log2_RN_bounds d Hd) as Hb2.
  pose proof (RN_pos n ltac:(lia)) as Hnp. pose proof (RN_pos d ltac:(lia)) as Hdp.
  assert (Hq : Q2R q = RN n / RN d).
  { unfold Q2R, n, d, q_num_abs, q_den, RN. rewrite N2Z.inj_abs_N, Z.abs_eq by lia. reflexivity. }
  assert (Htrue : log2 (Q2R q) = log2 (RN n) - log2 (RN d)) by (rewrite Hq; apply log2_div; assumption).
  set (L1 := flv (FFin s1 m1 e1)) in *. set (L2 := flv (FFin s2 m2 e2)) in *.
  set (D := flv (FFin s1 m1 e1) + flv (FFin (negb s2) m2 e2)).
  assert (HD : D = L1 - L2).
  { unfold D, L1, L2. change (FFin (negb s2) m2 e2) with (fl_neg (FFin s2 m2 e2)). rewrite flv_neg. ring. }
  assert (HDerr : Rabs (D - log2 (Q2R q)) <= / 2 ^ 40).
  { rewrite HD, Htrue. replace (L1 - L2 - (log2 (RN n) - log2 (RN d))) with ((L1 - log2 (RN n)) - (L2 - log2 (RN d))) by ring.
    eapply Rle_trans; [apply Rabs_triang|]. rewrite Rabs_Ropp.
    assert (/ 2 ^ 41 + / 2 ^ 41 <= / 2 ^ 40) by (interval with (i_prec 64)). lra. }
  assert (Hlq : Rabs (log2 (Q2R q)) <= 1022) by (rewrite Htrue; apply Rabs_le; lra).
  assert (HDabs : Rabs D <= 1023).
  { replace D with ((D - log2 (Q2R q)) + log2 (Q2R q)) by ring.
    eapply Rle_trans; [apply Rabs_triang|]. assert (/ 2 ^ 40 <= 1) by (interval with (i_prec 64)). lra. }
  destruct (fl_add_signed_spec s1 m1 e1 (negb s2) m2 e2) as [Hzero Hnonzero]. fold D in Hzero, Hnonzero.
  assert (Hbig : 1024 <= p2 1023).
  { pose proof (p2_le 10 1023 ltac:(lia)) as Hb.
    assert (H210 : p2 10 = 1024) by (change 10%Z with (Z.of_N 10); rewrite p2_of_N; unfold RN; change (Z.of_N (2 ^ 10)) with 1024%Z; lra). lra. }
  assert (Hres : exists s m e, fl_add (FFin s1 m1 e1) (FFin (negb s2) m2 e2) = FFin s m e /\
                   Rabs (flv (FFin s m e) - D) <= / 2 ^ 42).
  { destruct (Req_dec D 0) as [HD0|HD0].
    - destruct (Hzero HD0) as [sr Hr0]. exists sr, 0%N, 0%Z. split; [exact Hr0|].
      cbn [flv]. replace (RN 0) with 0 by reflexivity. rewrite HD0.
      replace ((if sr then -1 else 1) * (0 * p2 0) - 0) with 0 by ring. rewrite Rabs_R0.
      left. apply Rinv_0_lt_compat, pow_lt. lra.
    - pose proof (sum_nonzero_big s1 m1 e1 (negb s2) m2 e2 He1 He2 HD0) as Hlo.
      destruct (Hnonzero Hlo ltac:(lra)) as [sr [mr [er [Hrr [_ Herr]]]]].
      exists sr, mr, er. split; [exact Hrr|].
      eapply Rle_trans; [exact Herr|].
      eapply Rle_trans; [apply Rmult_le_compat_l; [left; exact u53_pos|exact HDabs]|].
      unfold u53. interval with (i_prec 64). }
  destruct Hres as [sr [mr [er [Hrr Herr]]]]. rewrite Hrr.
  destruct (from_f64_error_R sr mr er) as [v [Hv H1]]. rewrite fl_R_flv in H1.
  exists v. split; [exact Hv|]. split; [|exact Hlq].
  replace (Q2R v - log2 (Q2R q))
    with ((Q2R v - flv (FFin sr mr er)) + (flv (FFin sr mr er) - D) + (D - log2 (Q2R q))) by ring.
  eapply Rle_trans; [apply Rabs_triang|]. eapply Rle_trans; [apply Rplus_le_compat_r; apply Rabs_triang|].
  assert (/ 2 ^ 64 + / 2 ^ 42 + / 2 ^ 40 <= / 2 ^ 39) by (interval with (i_prec 64)). lra.
Qed.

(* ------------------------------------------------------------------ *)
(* log2, ln, log10 at the Real level: libm premise only *)

Definition log_operands (q : Q) : Prop :=
  (0 < Qnum q)%Z /\ (Qnum q < 2 ^ 1022)%Z /\ (Z.pos (Qden q) < 2 ^ 1022)%Z.

Definition libm_log2_at (Fo : oracles) (q : Q) : Prop :=
  libm_log2_ok (Fo Flog2) (log2_query_fl (q_num_abs q)) /\
  libm_log2_ok (Fo Flog2) (log2_query_fl (q_den q)).

Theorem accuracy_log2 : forall Fo q, log_operands q -> libm_log2_at Fo q ->
  exists v, real_fn Fo Flog2 (RSimple q) = Ok v /\
            within_budget (real_val (exv v)) (true_fn Flog2 (Q2R q)).
Proof.
  intros Fo q [H0 [Hn Hd]] [Hl1 Hl2].
  destruct (rat_log2_accurate Fo q H0 Hn Hd Hl1 Hl2) as [v [Hv [Herr _]]].
  unfold real_fn, rat_fn. simpl approximate. rewrite Hv. cbn [bind exv].
  eexists. split; [reflexivity|]. simpl. apply budget_of_abs.
  eapply Rle_trans; [exact Herr|]. interval with (i_prec 64).
Qed.

Definition c_log2_e : Q := (26613026195688644607 # 18446744073709551615)%Q.
Definition c_log2_10 : Q := (61278757397652709373 # 18446744073709551615)%Q.

Lemma c_log2_e_ok : from_f64 (fl_of_bits log2_e_bits) = Ok c_log2_e.
Proof. vm_compute. reflexivity. Qed.

Lemma c_log2_10_ok : from_f64 (fl_of_bits log2_10_bits) = Ok c_log2_10.
Proof. vm_compute. reflexivity. Qed.

(* l / c against ell * k, where l ~ ell, 1/c ~ k *)
Lemma quotient_budget : forall l ell c k,
  Rabs (l - ell) <= / 2 ^ 39 -> Rabs ell <= 1022 -> 1 <= c <= 4 ->
  Rabs (/ c - k) <= 1 / 10 ^ 15 ->
  Rabs (l / c - ell * k) <= 1 / 10 ^ 9.
Proof.
  intros l ell c k H1 H2 Hc H3.
  replace (l / c - ell * k) with ((l - ell) * / c + ell * (/ c - k)) by (field; lra).
  eapply Rle_trans; [apply Rabs_triang|]. rewrite !Rabs_mult.
  assert (Hic : 0 < / c <= 1).
  { split; [apply Rinv_0_lt_compat; lra|]. rewrite <- Rinv_1. apply Rinv_le_contravar; lra. }
  rewrite (Rabs_right (/ c)) by lra.
  assert (Rabs (l - ell) * / c <= / 2 ^ 39 * 1) by (apply Rmult_le_compat; try lra; apply Rabs_pos).
  assert (Rabs ell * Rabs (/ c - k) <= 1022 * (1 / 10 ^ 15)) by (apply Rmult_le_compat; try lra; apply Rabs_pos).
  assert (/ 2 ^ 39 * 1 + 1022 * (1 / 10 ^ 15) <= 1 / 10 ^ 9) by (interval with (i_prec 64)). lra.
Qed.

Theorem accuracy_ln : forall Fo q, log_operands q -> libm_log2_at Fo q ->
  exists v, real_fn Fo Fln (RSimple q) = Ok v /\
            within_budget (real_val (exv v)) (true_fn Fln (Q2R q)).
Proof.
  intros Fo q [H0 [Hn Hd]] [Hl1 Hl2].
  unfold real_fn, rat_fn. simpl approximate.
  destruct (qeq q 1) eqn:H1.
  - eexists. split; [reflexivity|]. simpl. apply budget_of_abs.
    apply Qeq_bool_eq in H1. rewrite (Qeq_eqR _ _ H1), Q2R_0, Q2R_1, ln_1, Rminus_0_r, Rabs_R0. lra.
  - destruct (rat_log2_accurate Fo q H0 Hn Hd Hl1 Hl2) as [l [Hv [Herr Hmag]]].
    rewrite Hv, c_log2_e_ok. cbn [bind].
    eexists. split; [reflexivity|]. simpl. apply budget_of_abs.
    assert (Hc : ~ (c_log2_e == 0)%Q) by (unfold c_log2_e, Qeq; simpl; lia).
    rewrite Q2R_div by exact Hc.
    assert (Hln : ln (Q2R q) = log2 (Q2R q) * ln 2).
    { unfold log2. field. interval with (i_prec 64). }
    rewrite Hln. apply quotient_budget; try assumption.
    + unfold c_log2_e, Q2R. cbn [Qnum Qden]. split; interval with (i_prec 64).
    + unfold c_log2_e, Q2R. cbn [Qnum Qden]. interval with (i_prec 100).
Qed.

Theorem accuracy_log10 : forall Fo q, log_operands q -> libm_log2_at Fo q ->
  exists v, real_fn Fo Flog10 (RSimple q) = Ok v /\
            within_budget (real_val (exv v)) (true_fn Flog10 (Q2R q)).
Proof.
  intros Fo q [H0 [Hn Hd]] [Hl1 Hl2].
  unfold real_fn, rat_fn. simpl approximate.
  destruct (rat_log2_accurate Fo q H0 Hn Hd Hl1 Hl2) as [l [Hv [Herr Hmag]]].
  rewrite Hv, c_log2_10_ok. cbn [bind exv].
  eexists. split; [reflexivity|]. simpl. apply budget_of_abs.
  assert (Hc : ~ (c_log2_10 == 0)%Q) by (unfold c_log2_10, Qeq; simpl; lia).
  rewrite Q2R_div by exact Hc.
  assert (Hln : log10 (Q2R q) = log2 (Q2R q) * (ln 2 / ln 10)).
  { unfold log2, log10. field. split; interval with (i_prec 64). }
  rewrite Hln. apply quotient_budget; try assumption.
  + unfold c_log2_10, Q2R. cbn [Qnum Qden]. split; interval with (i_prec 64).
  + unfold c_log2_10, Q2R. cbn [Qnum Qden]. interval with (i_prec 100).
Qed.
