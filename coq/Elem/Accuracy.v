(* C15 -- accuracy: the rational used for pi, the literal used for e, angle
   units, the values at the exact points, the generic error budget of the
   f64 bridge (everything around the libm oracle), the conditional headline
   theorem, and the refutation witnesses.  Uses Coq Reals + Interval; never
   extracted. *)
From FendV Require Import Base.Prelude Elem.Bridge Elem.Model Elem.ModelProofs
  Elem.BridgeProofs Elem.TrigReals Elem.PointDefs.
From Coq Require Import QArith Qabs Qreals Reals Lra Lia.
From Interval Require Import Tactic.
Open Scope R_scope.

(* ------------------------------------------------------------------ *)
(* constants *)

Lemma pi_accuracy_lemma : Rabs (Q2R pi_model - PI) <= 1 / 10 ^ 23.
Proof.
  rewrite pi_model_value. unfold Q2R, pi_num, pi_den. cbn [Qnum Qden].
  interval with (i_prec 120).
Qed.

Lemma pi_model_below : Q2R pi_model < PI.
Proof.
  rewrite pi_model_value. unfold Q2R, pi_num, pi_den. cbn [Qnum Qden].
  interval with (i_prec 120).
Qed.

Lemma e_accuracy_lemma : Rabs (Q2R e_model - exp 1) <= 1 / 10 ^ 18.
Proof.
  unfold e_model, Q2R. cbn [Qnum Qden]. interval with (i_prec 120).
Qed.

(* ------------------------------------------------------------------ *)
(* angle units: exact multiples of pi *)

Lemma degrees_to_rad_lemma : forall x : Q,
  angle_to_rad UDegree x = RPi (x * (2 * (1 # 360)))%Q /\
  real_val (angle_to_rad UDegree x) = Q2R x * PI / 180.
Proof.
  intro x. split; [reflexivity|].
  unfold angle_to_rad, unit_in_pi, real_val. rewrite Q2R_mult.
  replace (Q2R (2 * (1 # 360))) with (/ 180).
  - field.
  - rewrite (Qeq_eqR (2 * (1 # 360)) (1 # 180)) by reflexivity. unfold Q2R. simpl. lra.
Qed.

Lemma Q2R_const : forall (s : Q) (a : Z) (b : positive), (s == a # b)%Q -> Q2R s = IZR a / IZR (Z.pos b).
Proof. intros s a b H. rewrite (Qeq_eqR _ _ H). reflexivity. Qed.

Lemma angle_units_lemma : forall x : Q,
  real_val (angle_to_rad UCircle x) = Q2R x * (2 * PI) /\
  real_val (angle_to_rad UArcmin x) = Q2R x * PI / 180 / 60 /\
  real_val (angle_to_rad UArcsec x) = Q2R x * PI / 180 / 3600 /\
  real_val (angle_to_rad URightangle x) = Q2R x * PI / 2 /\
  real_val (angle_to_rad UGradian x) = Q2R x * PI / 200 /\
  real_val (angle_to_rad URadian x) = Q2R x.
Proof.
  intro x. unfold angle_to_rad, unit_in_pi, real_val.
  repeat split; try rewrite (Q2R_mult x).
  - rewrite (Q2R_const 2 2 1) by reflexivity. field.
  - rewrite (Q2R_const (2 * (1 # 360) * (1 # 60)) 1 10800) by reflexivity. field.
  - rewrite (Q2R_const (2 * (1 # 360) * (1 # 60) * (1 # 60)) 1 648000) by reflexivity. field.
  - rewrite (Q2R_const (2 * (1 # 360) * 90) 1 2) by reflexivity. field.
  - rewrite (Q2R_const (2 * (1 # 360) * 90 * (1 # 100)) 1 200) by reflexivity. field.
Qed.

(* ------------------------------------------------------------------ *)
(* the exact results of the BigRat functions are the true values *)

Lemma rat_fn_exact_values : forall Fo f q v,
  rat_fn Fo f q = Ok v -> exb v = true ->
  (f = Fsin /\ Q2R (exv v) = sin (Q2R q)) \/
  (f = Fln /\ Q2R (exv v) = ln (Q2R q)) \/
  (f = Fexp /\ Q2R (exv v) = exp (Q2R q)).
Proof.
  intros Fo f q v H He.
  destruct (rat_fn_exact_cases _ _ _ _ H He) as [[Hf [Hq Hv]]|[[Hf [Hq Hv]]|[Hf [Hq Hv]]]];
    rewrite Hv, (Qeq_eqR _ _ Hq).
  - left. split; [exact Hf|]. rewrite Q2R_0. symmetry. apply sin_0.
  - right. left. split; [exact Hf|]. rewrite Q2R_0, Q2R_1. symmetry. apply ln_1.
  - right. right. split; [exact Hf|]. rewrite Q2R_0, Q2R_1. symmetry. apply exp_0.
Qed.

(* ------------------------------------------------------------------ *)
(* cos of a rational before fix commit bd3b9a9: the one unsound exact flag *)

Lemma cos_old_simple_exact_refuted_lemma : forall Fo,
  exists a v, real_cos_old Fo (RSimple a) = Ok (mkEx v true) /\ real_val v <> cos (Q2R a).
Proof.
  intro Fo. exists (- ((1 # 2) * pi_model))%Q, (RSimple 0%Q). split.
  - unfold real_cos_old, Model.cos_shift, cos_shift_ex.
    replace (real_is_zero (RSimple (- ((1 # 2) * pi_model)))) with false
      by (rewrite pi_model_value; reflexivity).
    simpl fst. unfold real_sin_old, real_sin_with, rat_fn.
    assert (Hz : qeq (rat_add (- ((1 # 2) * pi_model)) ((1 # 2) * pi_model)) 0 = true).
    { rewrite pi_model_value. vm_compute. reflexivity. }
    rewrite Hz. reflexivity.
  - simpl. rewrite Q2R_0, Q2R_opp, Q2R_mult, Q2R_half, cos_neg.
    assert (0 < cos (1 / 2 * Q2R pi_model)); [|lra].
    rewrite pi_model_value. unfold Q2R, pi_num, pi_den. cbn [Qnum Qden].
    interval with (i_prec 200).
Qed.

(* ------------------------------------------------------------------ *)
(* the bridge: error budget around the libm oracle *)

Definition fl_R (x : fl) : R := Q2R (fl_valQ x).

Definition is_finite (x : fl) : bool :=
  match x with FFin _ _ _ => true | _ => false end.

Lemma Q2R_abs : forall q, Q2R (Qabs q) = Rabs (Q2R q).
Proof.
  intro q. destruct (Qlt_le_dec q 0) as [Hn|Hp].
  - rewrite Qabs_neg by (apply Qlt_le_weak; exact Hn).
    rewrite Q2R_opp. apply Qlt_Rlt in Hn. rewrite Q2R_0 in Hn. rewrite Rabs_left; lra.
  - rewrite Qabs_pos by exact Hp. apply Qle_Rle in Hp. rewrite Q2R_0 in Hp.
    rewrite Rabs_right; lra.
Qed.

Lemma from_f64_error_R : forall s m e,
  exists v, from_f64 (FFin s m e) = Ok v /\
            Rabs (Q2R v - fl_R (FFin s m e)) <= / 2 ^ 64.
Proof.
  intros s m e. destruct (from_f64_total_lemma s m e) as [v [Hv Hq]].
  exists v. split; [exact Hv|].
  apply Qle_Rle in Hq. rewrite Q2R_abs, Q2R_minus in Hq.
  unfold fl_R. eapply Rle_trans; [exact Hq|].
  unfold Q2R. cbn [Qnum Qden]. right. simpl. lra.
Qed.

Lemma from_f64_old_error_R : forall s m e,
  fl_saturates (FFin s m e) = false ->
  Rabs (Q2R (from_f64_old (FFin s m e)) - fl_R (FFin s m e)) <= / 2 ^ 64.
Proof.
  intros s m e H. pose proof (from_f64_old_error_lemma s m e H) as Hq.
  apply Qle_Rle in Hq. rewrite Q2R_abs, Q2R_minus in Hq.
  unfold fl_R. eapply Rle_trans; [exact Hq|].
  unfold Q2R. cbn [Qnum Qden]. right. simpl. lra.
Qed.

(* a finite value below 2^64 in magnitude is not in the saturating class *)
Lemma not_saturates_of_small : forall s m e,
  Rabs (fl_R (FFin s m e)) < 2 ^ 64 -> fl_saturates (FFin s m e) = false.
Proof.
  intros s m e H. unfold fl_saturates. apply N.leb_gt.
  unfold fl_R in H. rewrite <- Q2R_abs in H.
  assert (Hq : (Qabs (fl_valQ (FFin s m e)) < inject_Z (2 ^ 64))%Q).
  { apply Rlt_Qlt. rewrite Q2R_inject_Z. eapply Rlt_le_trans; [exact H|]. right.
    rewrite pow_IZR. reflexivity. }
  clear H. unfold fl_valQ in Hq.
  set (M := Z.of_N m). assert (HM : (0 <= M)%Z) by (unfold M; lia).
  assert (Habs : Z.abs (sgnZ s m) = M) by (unfold sgnZ; destruct s; fold M; lia).
  destruct (Z.leb_spec 0 e) as [He|He].
  - unfold Qabs, inject_Z, Qlt in Hq. cbn [Qnum Qden] in Hq.
    rewrite Z.abs_mul, Habs in Hq.
    assert (Hp : (0 < 2 ^ e)%Z) by (apply pow2_pos; lia).
    rewrite (Z.abs_eq (2 ^ e)) in Hq by lia.
    apply N2Z.inj_lt. rewrite N2Z.inj_mul, N2Z.inj_pow, Z2N.id by lia.
    fold M. change (Z.of_N 2) with 2%Z. change (Z.of_N (2 ^ 64)) with (2 ^ 64)%Z. lia.
  - assert (Hp : (0 < 2 ^ (- e))%Z) by (apply pow2_pos; lia).
    unfold Qabs, inject_Z, Qlt in Hq. cbn [Qnum Qden] in Hq.
    rewrite Habs, Z2Pos.id in Hq by lia.
    apply N2Z.inj_lt. rewrite N2Z.inj_div, N2Z.inj_pow, Z2N.id by lia.
    fold M. change (Z.of_N 2) with 2%Z. change (Z.of_N (2 ^ 64)) with (2 ^ 64)%Z.
    apply Z.div_lt_upper_bound; lia.
Qed.

Section BridgeBudget.
  (* F: the libm function as linked (bit pattern to bit pattern); fR: the real
     function it approximates; L: a Lipschitz constant of fR. *)
  Variable F : oracle.
  Variable fR : R -> R.
  Variable L eps_libm delta : R.
  Hypothesis L_nonneg : 0 <= L.
  Hypothesis lipschitz : forall a b, Rabs (fR a - fR b) <= L * Rabs (a - b).

  (* oracle hypothesis, at one input x: the answer is a finite number within
     eps_libm of the real function *)
  Definition libm_ok (x : fl) : Prop :=
    exists s m e, fl_of_bits (F (fl_bits x)) = FFin s m e /\
                  Rabs (fl_R (FFin s m e) - fR (fl_R x)) <= eps_libm.

  (* conversion hypothesis, at one rational q: into_f64 is within delta
     relative of q *)
  Definition into_ok (q : Q) : Prop :=
    Rabs (fl_R (into_f64 q) - Q2R q) <= delta * Rabs (Q2R q).

  Theorem bridge_budget : forall q,
    into_ok q -> libm_ok (into_f64 q) ->
    exists v, bridge F q = Ok v /\
      Rabs (Q2R v - fR (Q2R q)) <= / 2 ^ 64 + eps_libm + L * delta * Rabs (Q2R q).
  Proof.
    intros q Hin [s [m [e [Hy Hacc]]]].
    unfold bridge. rewrite Hy.
    destruct (from_f64_error_R s m e) as [v [Hv H1]].
    exists v. split; [exact Hv|].
    pose proof (lipschitz (fl_R (into_f64 q)) (Q2R q)) as H3.
    unfold into_ok in Hin.
    assert (H3' : Rabs (fR (fl_R (into_f64 q)) - fR (Q2R q)) <= L * delta * Rabs (Q2R q)).
    { eapply Rle_trans; [exact H3|]. rewrite Rmult_assoc. apply Rmult_le_compat_l; assumption. }
    replace (Q2R v - fR (Q2R q))
      with ((Q2R v - fl_R (FFin s m e))
            + (fl_R (FFin s m e) - fR (fl_R (into_f64 q)))
            + (fR (fl_R (into_f64 q)) - fR (Q2R q))) by ring.
    eapply Rle_trans; [apply Rabs_triang|].
    eapply Rle_trans; [apply Rplus_le_compat_r; apply Rabs_triang|]. lra.
  Qed.
End BridgeBudget.

Lemma Rabs_le_inv : forall a b, Rabs a <= b -> - b <= a <= b.
Proof. intros a b. unfold Rabs. destruct (Rcase_abs a); lra. Qed.

(* Lipschitz constants *)
Lemma sin_lipschitz : forall a b, Rabs (sin a - sin b) <= 1 * Rabs (a - b).
Proof.
  intros a b. rewrite Rmult_1_l.
  destruct (MVT_abs sin cos b a) as [c [Hc _]].
  { intros. apply derivable_pt_lim_sin. }
  rewrite Hc. rewrite <- (Rmult_1_l (Rabs (a - b))) at 2.
  apply Rmult_le_compat_r; [apply Rabs_pos|].
  apply Rabs_le. pose proof (COS_bound c). lra.
Qed.

Lemma atan_lipschitz : forall a b, Rabs (atan a - atan b) <= 1 * Rabs (a - b).
Proof.
  intros a b. rewrite Rmult_1_l.
  destruct (MVT_abs atan (fun x => / (1 + x ^ 2)) b a) as [c [Hc _]].
  { intros. apply derivable_pt_lim_atan. }
  rewrite Hc. rewrite <- (Rmult_1_l (Rabs (a - b))) at 2.
  apply Rmult_le_compat_r; [apply Rabs_pos|].
  assert (H1 : 1 <= 1 + c ^ 2) by nra.
  rewrite Rabs_right.
  - rewrite <- Rinv_1. apply Rinv_le_contravar; lra.
  - left. apply Rinv_0_lt_compat. lra.
Qed.

(* ------------------------------------------------------------------ *)
(* the headline statement of C15, in full *)

Definition true_fn (f : fname) (x : R) : R :=
  match f with
  | Fsin => sin x | Fcos => cos x | Fasin => asin x | Facos => acos x | Fatan => atan x
  | Fsinh => sinh x | Fcosh => cosh x | Ftanh => tanh x | Fasinh => arcsinh x
  | Facosh => acosh x | Fatanh => atanh x
  | Flog2 => log2 x | Fln => ln x | Flog10 => log10 x | Fexp => exp x
  end.

Definition in_domain (f : fname) (x : R) : Prop :=
  match f with
  | Fasin | Facos => -1 <= x <= 1
  | Facosh => 1 <= x
  | Fatanh => -1 < x < 1
  | Flog2 | Fln | Flog10 => 0 < x
  | _ => True
  end.

Definition within_budget (v t : R) : Prop :=
  Rabs (v - t) <= 1 / 10 ^ 9 * Rmax 1 (Rabs t).

(* "for arguments up to 10^3 in magnitude, inside the domain, the result is a
   value within 1e-9 * max(1,|true value|) of the true value" -- for the
   Real-level function applied to a rational argument *)
Definition C15_accuracy_statement (Fo : oracles) : Prop :=
  forall f q, Rabs (Q2R q) <= 1000 -> in_domain f (Q2R q) ->
  exists v, real_fn Fo f (RSimple q) = Ok v /\
            within_budget (real_val (exv v)) (true_fn f (Q2R q)).

Lemma budget_of_abs : forall v t, Rabs (v - t) <= 1 / 10 ^ 9 -> within_budget v t.
Proof.
  intros v t H. unfold within_budget. eapply Rle_trans; [exact H|].
  rewrite <- (Rmult_1_r (1 / 10 ^ 9)) at 1.
  apply Rmult_le_compat_l; [lra|apply Rmax_l].
Qed.

(* conditional: libm within 2^-52 at the consulted point, into_f64 within
   2^-50 relative at the argument *)
Theorem accuracy_partial_sin : forall Fo q,
  Rabs (Q2R q) <= 1000 ->
  into_ok (/ 2 ^ 50) q -> libm_ok (Fo Fsin) sin (/ 2 ^ 52) (into_f64 q) ->
  exists v, real_fn Fo Fsin (RSimple q) = Ok v /\
            within_budget (real_val (exv v)) (sin (Q2R q)).
Proof.
  intros Fo q Hq Hin Hlib. unfold real_fn, real_sin, real_sin_with, rat_fn.
  destruct (qeq q 0) eqn:Hz.
  - eexists. split; [reflexivity|]. simpl. apply budget_of_abs.
    apply Qeq_bool_eq in Hz. rewrite (Qeq_eqR _ _ Hz), Q2R_0, sin_0.
    rewrite Rminus_0_r, Rabs_R0. lra.
  - destruct (bridge_budget (Fo Fsin) sin 1 (/ 2 ^ 52) (/ 2 ^ 50) ltac:(lra) sin_lipschitz q Hin Hlib)
      as [v [Hv H]].
    rewrite Hv. eexists. split; [reflexivity|]. simpl. apply budget_of_abs.
    eapply Rle_trans; [exact H|].
    assert (1 * / 2 ^ 50 * Rabs (Q2R q) <= / 2 ^ 50 * 1000).
    { rewrite Rmult_1_l. apply Rmult_le_compat_l; [|exact Hq]. left. apply Rinv_0_lt_compat. lra. }
    assert (/ 2 ^ 64 + / 2 ^ 52 + / 2 ^ 50 * 1000 <= 1 / 10 ^ 9) by (interval with (i_prec 64)).
    lra.
Qed.

Theorem accuracy_partial_atan : forall Fo q,
  Rabs (Q2R q) <= 1000 ->
  into_ok (/ 2 ^ 50) q -> libm_ok (Fo Fatan) atan (/ 2 ^ 52) (into_f64 q) ->
  exists v, real_fn Fo Fatan (RSimple q) = Ok v /\
            within_budget (real_val (exv v)) (atan (Q2R q)).
Proof.
  intros Fo q Hq Hin Hlib. unfold real_fn, rat_fn. simpl approximate.
  destruct (bridge_budget (Fo Fatan) atan 1 (/ 2 ^ 52) (/ 2 ^ 50) ltac:(lra) atan_lipschitz q Hin Hlib)
    as [v [Hv H]].
  rewrite Hv. eexists. split; [reflexivity|]. simpl. apply budget_of_abs.
  eapply Rle_trans; [exact H|].
  assert (1 * / 2 ^ 50 * Rabs (Q2R q) <= / 2 ^ 50 * 1000).
  { rewrite Rmult_1_l. apply Rmult_le_compat_l; [|exact Hq]. left. apply Rinv_0_lt_compat. lra. }
  assert (/ 2 ^ 64 + / 2 ^ 52 + / 2 ^ 50 * 1000 <= 1 / 10 ^ 9) by (interval with (i_prec 64)).
  lra.
Qed.

(* cos x = sin (x + pi_model/2): additionally pays |pi_model - PI| / 2 *)
Theorem accuracy_partial_cos : forall Fo q,
  Rabs (Q2R q) <= 1000 -> (Qnum q =? 0)%Z = false ->
  let a := rat_add q ((1 # 2) * pi_model) in
  into_ok (/ 2 ^ 50) a -> libm_ok (Fo Fsin) sin (/ 2 ^ 52) (into_f64 a) ->
  exists v, real_fn Fo Fcos (RSimple q) = Ok v /\
            within_budget (real_val (exv v)) (cos (Q2R q)).
Proof.
  intros Fo q Hq Hnz a Hin Hlib. unfold real_fn, real_cos, Model.cos_shift, cos_shift_ex.
  simpl real_is_zero. rewrite Hnz. simpl fst. simpl snd. fold a.
  unfold real_sin, real_sin_with, rat_fn.
  assert (Ha : Q2R a = Q2R q + / 2 * Q2R pi_model).
  { unfold a. rewrite (Qeq_eqR _ _ (rat_add_correct q ((1 # 2) * pi_model))).
    rewrite Q2R_plus, Q2R_mult, Q2R_half. lra. }
  pose proof pi_accuracy_lemma as Hpi. apply Rabs_le_inv in Hpi.
  assert (Hcs : Rabs (sin (Q2R a) - cos (Q2R q)) <= 1 / 10 ^ 23).
  { rewrite cos_sin. eapply Rle_trans; [apply sin_lipschitz|]. rewrite Rmult_1_l, Ha.
    apply Rabs_le. lra. }
  assert (Habs : Rabs (Q2R a) <= 1002).
  { rewrite Ha. apply Rabs_le. apply Rabs_le_inv in Hq.
    assert (3 < PI < 32 / 10) by (split; interval with (i_prec 64)). lra. }
  destruct (qeq a 0) eqn:Hz.
  - eexists. split; [reflexivity|]. simpl. apply budget_of_abs.
    apply Qeq_bool_eq in Hz. rewrite (Qeq_eqR _ _ Hz), Q2R_0, sin_0 in Hcs.
    rewrite Q2R_0. lra.
  - destruct (bridge_budget (Fo Fsin) sin 1 (/ 2 ^ 52) (/ 2 ^ 50) ltac:(lra) sin_lipschitz a Hin Hlib)
      as [v [Hv H]].
    rewrite Hv. eexists. split; [reflexivity|]. simpl. apply budget_of_abs.
    replace (Q2R v - cos (Q2R q))
      with ((Q2R v - sin (Q2R a)) + (sin (Q2R a) - cos (Q2R q))) by ring.
    eapply Rle_trans; [apply Rabs_triang|].
    assert (1 * / 2 ^ 50 * Rabs (Q2R a) <= / 2 ^ 50 * 1002).
    { rewrite Rmult_1_l. apply Rmult_le_compat_l; [|exact Habs]. left. apply Rinv_0_lt_compat. lra. }
    assert (/ 2 ^ 64 + / 2 ^ 52 + / 2 ^ 50 * 1002 + 1 / 10 ^ 23 <= 1 / 10 ^ 9) by (interval with (i_prec 64)).
    lra.
Qed.

(* ------------------------------------------------------------------ *)
(* refutations of the headline statement: witnesses that hold for EVERY libm
   that answers the one consulted point correctly *)

(* (1) ill-conditioned argument: acos (1 - 10^-17).  into_f64 rounds the
   argument to 1.0; any libm with acos(1.0) = +0.0 gives 0; the true value
   is 4.47e-9 *)
Definition q_edge : Q := (99999999999999999 # 100000000000000000)%Q.
Definition bits_one : N := 4607182418800017408.     (* 0x3FF0000000000000 *)

Lemma into_f64_edge : fl_bits (into_f64 q_edge) = bits_one.
Proof. vm_compute. reflexivity. Qed.

Lemma acos_edge_true : 4 / 10 ^ 9 < acos (Q2R q_edge) < 5 / 10 ^ 9.
Proof.
  unfold q_edge, Q2R. cbn [Qnum Qden].
  rewrite acos_asin by (split; interval with (i_prec 120)).
  rewrite asin_atan by (split; interval with (i_prec 120)).
  unfold Rsqr. split; interval with (i_prec 300).
Qed.

Theorem accuracy_refuted_lemma : forall Fo,
  Fo Facos bits_one = 0%N -> ~ C15_accuracy_statement Fo.
Proof.
  intros Fo HF Hst.
  destruct (Hst Facos q_edge) as [v [Hv Hb]].
  - unfold q_edge, Q2R. cbn [Qnum Qden]. interval with (i_prec 64).
  - unfold in_domain, q_edge, Q2R. cbn [Qnum Qden]. split; interval with (i_prec 120).
  - unfold real_fn, rat_fn in Hv. simpl approximate in Hv.
    replace (qlt 1 q_edge || qlt q_edge (-1 # 1))%bool with false in Hv by reflexivity.
    unfold bridge in Hv. rewrite into_f64_edge, HF in Hv.
    replace (from_f64 (fl_of_bits 0)) with (Ok (0 # 18446744073709551615)%Q : res Q) in Hv
      by (vm_compute; reflexivity).
    cbn [bind] in Hv. injection Hv as <-. simpl in Hb.
    unfold within_budget, true_fn in Hb.
    pose proof acos_edge_true as [Hl Hu].
    replace (Q2R (0 # 18446744073709551615)) with 0 in Hb by (unfold Q2R; simpl; lra).
    rewrite Rminus_0_l, Rabs_Ropp in Hb.
    rewrite (Rabs_right (acos (Q2R q_edge))) in Hb by lra.
    rewrite Rmax_left in Hb by lra. lra.
Qed.

(* ------------------------------------------------------------------ *)
(* the bridge since fix commit d752faf: whatever finite value libm answers is
   converted faithfully (any magnitude); a non-finite answer is an error *)

Theorem bridge_faithful_lemma : forall F q s m e,
  fl_of_bits (F (fl_bits (into_f64 q))) = FFin s m e ->
  exists v, bridge F q = Ok v /\ Rabs (Q2R v - fl_R (FFin s m e)) <= / 2 ^ 64.
Proof.
  intros F q s m e Hy. unfold bridge. rewrite Hy. apply from_f64_error_R.
Qed.

Theorem bridge_nonfinite_lemma : forall F q,
  (fl_of_bits (F (fl_bits (into_f64 q))) = FNaN \/
   exists s, fl_of_bits (F (fl_bits (into_f64 q))) = FInf s) ->
  bridge F q = Err EOther.
Proof.
  intros F q [H|[s H]]; unfold bridge; rewrite H; reflexivity.
Qed.

(* atan ((10^400+1)/10^400): into_f64 is inf/inf = NaN, libm keeps NaN, and the
   result is now the error ValueTooLarge (it was the number 0) *)
Theorem nan_is_error_lemma : forall Fo,
  fl_of_bits (Fo Fatan (fl_bits FNaN)) = FNaN ->
  real_fn Fo Fatan (RSimple q_big_near_one) = Err EOther.
Proof.
  intros Fo HF. unfold real_fn, rat_fn. simpl approximate.
  rewrite (bridge_nonfinite_lemma (Fo Fatan) q_big_near_one); [reflexivity|].
  left. rewrite into_f64_big_near_one_is_nan. exact HF.
Qed.

(* ------------------------------------------------------------------ *)
(* documentation of the repaired defects: the functions before the commits *)

(* (2) saturation: sinh 46.  Whatever finite value >= 2^64 (or +infinity)
   libm returned, from_f64_old made it exactly 2^64; the true value is 4.7e19 *)
Lemma sinh46_true : 4 * 10 ^ 19 < sinh 46.
Proof. unfold sinh. interval with (i_prec 64). Qed.

Theorem saturation_old_refuted_lemma : forall y,
  (y = FInf false \/ exists m e, y = FFin false m e /\ fl_saturates y = true) ->
  Q2R (from_f64_old y) = 2 ^ 64 /\ ~ within_budget (Q2R (from_f64_old y)) (sinh 46).
Proof.
  intros y Hcls.
  assert (Hv : Q2R (from_f64_old y) = 2 ^ 64).
  { destruct Hcls as [->|[m [e [-> Hs]]]].
    - rewrite (Qeq_eqR _ _ (from_f64_old_inf false)). rewrite Q2R_inject_Z. simpl sgnZ.
      rewrite pow_IZR. reflexivity.
    - rewrite (Qeq_eqR _ _ (from_f64_old_saturation_lemma false m e Hs)). rewrite Q2R_inject_Z.
      simpl sgnZ. rewrite pow_IZR. reflexivity. }
  split; [exact Hv|]. rewrite Hv. unfold within_budget.
  pose proof sinh46_true as Ht.
  assert (H64 : (2:R) ^ 64 < 2 * 10 ^ 19) by (interval with (i_prec 64)).
  intro Hb. rewrite (Rabs_right (sinh 46)) in Hb by lra.
  rewrite Rmax_right in Hb by lra.
  rewrite Rabs_left in Hb by lra. lra.
Qed.

(* (3) NaN became the number 0 while atan of the argument is pi/4 *)
Theorem nan_old_refuted_lemma :
  Q2R (from_f64_old FNaN) = 0 /\ ~ within_budget 0 (atan (Q2R q_big_near_one)).
Proof.
  rewrite from_f64_old_nan_is_zero.
  assert (H0 : Q2R (0 # 18446744073709551615) = 0) by (unfold Q2R; simpl; lra).
  split; [exact H0|]. unfold within_budget.
  assert (Ht : 3 / 4 < atan (Q2R q_big_near_one) < 1).
  { unfold q_big_near_one, Q2R. cbn [Qnum Qden]. split; interval with (i_prec 1500). }
  intro Hb. rewrite Rminus_0_l, Rabs_Ropp in Hb.
  rewrite (Rabs_right (atan _)) in Hb by lra. rewrite Rmax_left in Hb by lra. lra.
Qed.

(* (4) multiples of pi beyond 2^64/6: sin (2^70 pi) = 0 is a documented exact
   point, but the old table skipped it and whatever libm did the result was
   marked approximate *)
Theorem sin_old_special_unbounded_refuted_lemma :
  exists (z : Z) (n : Q), (n == z # 6)%Q /\ good_residue (Z.abs_N z) = true /\
    forall Fo, exists r, real_sin_old Fo (RPi n) = r /\
      forall v, r = Ok v -> exb v = false.
Proof.
  exists (6 * 2 ^ 70)%Z, (2 ^ 70 # 1)%Q. split; [reflexivity|]. split; [vm_compute; reflexivity|].
  intro Fo. eexists. split; [reflexivity|].
  intros v. unfold real_sin_old, real_sin_with.
  replace (qlt (2 ^ 70 # 1) 0) with false by reflexivity.
  rewrite sin_table_old_2_70_none. unfold rat_fn.
  assert (Hq : qeq ((2 ^ 70 # 1) * pi_model) 0 = false).
  { rewrite pi_model_value. vm_compute. reflexivity. }
  rewrite Hq. clear Hq.
  set (br := bridge (Fo Fsin) ((2 ^ 70 # 1) * pi_model)). clearbody br.
  destruct br; intro H; try discriminate.
  injection H as <-. reflexivity.
Qed.

(* ------------------------------------------------------------------ *)
(* the hypotheses of the conditional theorems are satisfiable *)

Lemma accuracy_partial_hyps_inhabited :
  into_ok (/ 2 ^ 50) (1 # 2)%Q /\
  libm_ok (fun _ => 4602308182625945072%N) sin (/ 2 ^ 52) (into_f64 (1 # 2)%Q).
Proof.
  assert (Hin : into_f64 (1 # 2)%Q = FFin false 4503599627370496 (-53)) by (vm_compute; reflexivity).
  assert (Hx : fl_R (FFin false 4503599627370496 (-53)) = 1 / 2).
  { unfold fl_R.
    replace (fl_valQ (FFin false 4503599627370496 (-53))) with (4503599627370496 # 9007199254740992)%Q
      by (vm_compute; reflexivity).
    unfold Q2R. cbn [Qnum Qden]. field. }
  split.
  - unfold into_ok. rewrite Hin, Hx. unfold Q2R. cbn [Qnum Qden].
    replace (1 / 2 - 1 * / 2) with 0 by lra. rewrite Rabs_R0.
    apply Rmult_le_pos; [|apply Rabs_pos]. left. apply Rinv_0_lt_compat. lra.
  - unfold libm_ok. rewrite Hin, Hx.
    exists false, 8636562708039152%N, (-54)%Z.
    split; [vm_compute; reflexivity|].
    assert (Hy : fl_R (FFin false 8636562708039152 (-54)) = 8636562708039152 / 18014398509481984).
    { unfold fl_R.
      replace (fl_valQ (FFin false 8636562708039152 (-54))) with (8636562708039152 # 18014398509481984)%Q
        by (vm_compute; reflexivity).
      unfold Q2R. cbn [Qnum Qden]. field. }
    rewrite Hy. interval with (i_prec 100).
Qed.
