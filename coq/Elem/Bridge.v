(* C15 -- the f64 bridge of core/src/num/bigrat.rs and biguint.rs:
     BigUint::as_f64, BigRat::into_f64, BigRat::from_f64, BigUint::log2.
   Executable Gallina only (no proofs, no Reals): a small soft-float for
   IEEE-754 binary64 with round-to-nearest-even, written over N/Z, which is
   what Rust specifies for `u64 as f64`, `f64 + f64`, `f64 * f64`,
   `f64 / f64`, and the saturating `f64 as u128` cast.
   libm (f64::sin, ...) is NOT modelled: every function that calls it takes
   the oracle  F : N -> N  (bit pattern in, bit pattern out) as a parameter. *)
From FendV Require Import Base.Prelude.
From Coq Require Import QArith.
Open Scope N_scope.

(* A binary64 value.  [FFin neg m e] is (-1)^neg * m * 2^e.  Values produced
   by [round_pos] have m <= 2^53 and e >= -1074. *)
Inductive fl :=
| FNaN
| FInf (neg : bool)
| FFin (neg : bool) (m : N) (e : Z).

Definition fl_zero : fl := FFin false 0 0.

(* round (n * 2^s / d) to the nearest binary64, ties to even; d > 0.
   Overflow gives an infinity, as IEEE-754 round-to-nearest does. *)
Definition round_pos (neg : bool) (n d : N) (s : Z) : fl :=
  if n =? 0 then FFin neg 0 0 else
  let a := N.log2 n in
  let b := N.log2 d in
  let e0 := (Z.of_N a - Z.of_N b + s)%Z in
  (* 2^e0 <= n*2^s/d   <->   d * 2^a <= n * 2^b *)
  let e := if d * 2 ^ a <=? n * 2 ^ b then e0 else (e0 - 1)%Z in
  let ex := Z.max (e - 52) (-1074) in
  let sh := (s - ex)%Z in
  let n' := if (0 <=? sh)%Z then n * 2 ^ Z.to_N sh else n in
  let d' := if (0 <=? sh)%Z then d else d * 2 ^ Z.to_N (- sh) in
  let q := n' / d' in
  let r := n' mod d' in
  let m := if 2 * r <? d' then q
           else if d' <? 2 * r then q + 1
           else if N.even q then q else q + 1 in
  if (1025 <=? Z.of_N (N.size m) + ex)%Z then FInf neg else FFin neg m ex.

Definition fl_neg (x : fl) : fl :=
  match x with
  | FNaN => FNaN
  | FInf s => FInf (negb s)
  | FFin s m e => FFin (negb s) m e
  end.

Definition sgnZ (neg : bool) (m : N) : Z := if neg then (- Z.of_N m)%Z else Z.of_N m.

Definition fl_add (x y : fl) : fl :=
  match x, y with
  | FNaN, _ | _, FNaN => FNaN
  | FInf a, FInf b => if Bool.eqb a b then FInf a else FNaN
  | FInf a, _ => FInf a
  | _, FInf b => FInf b
  | FFin s1 m1 e1, FFin s2 m2 e2 =>
    let e := Z.min e1 e2 in
    let z := (sgnZ s1 m1 * 2 ^ (e1 - e) + sgnZ s2 m2 * 2 ^ (e2 - e))%Z in
    if (z =? 0)%Z then FFin (s1 && s2) 0 0
    else round_pos (z <? 0)%Z (Z.abs_N z) 1 e
  end.

Definition fl_sub (x y : fl) : fl := fl_add x (fl_neg y).

Definition fl_div (x y : fl) : fl :=
  match x, y with
  | FNaN, _ | _, FNaN => FNaN
  | FInf _, FInf _ => FNaN
  | FInf a, FFin b _ _ => FInf (xorb a b)
  | FFin a _ _, FInf b => FFin (xorb a b) 0 0
  | FFin a m1 e1, FFin b m2 e2 =>
    if m2 =? 0 then (if m1 =? 0 then FNaN else FInf (xorb a b))
    else round_pos (xorb a b) m1 m2 (e1 - e2)
  end.

(* `n as f64` for an unsigned integer *)
Definition fl_of_N (n : N) : fl := round_pos false n 1 0.

(* `res *= u64::MAX as f64`: the constant rounds to 2^64, the product is exact
   unless it overflows *)
Definition fl_scale64 (x : fl) : fl :=
  match x with
  | FFin s m e => round_pos s m 1 (e + 64)
  | o => o
  end.

(* ---- bit patterns ---- *)

Definition fl_bits (x : fl) : N :=
  match x with
  | FNaN => 9221120237041090560                 (* 0x7FF8_0000_0000_0000, canonical quiet NaN *)
  | FInf s => (if s then 2 ^ 63 else 0) + 2047 * 2 ^ 52
  | FFin s m e =>
    (if s then 2 ^ 63 else 0) +
    (if m =? 0 then 0 else
     let k := N.size m in
     if (Z.of_N k - 1 + e <? -1022)%Z then
       (* subnormal: unit 2^-1074 *)
       (if (-1074 <=? e)%Z then m * 2 ^ Z.to_N (e + 1074) else m / 2 ^ Z.to_N (- 1074 - e))
     else
       let ef := Z.to_N (Z.of_N k + e + 1022) in
       let mant := if k <=? 53 then m * 2 ^ (53 - k) else m / 2 ^ (k - 53) in
       ef * 2 ^ 52 + (mant - 2 ^ 52))
  end.

Definition fl_of_bits (b : N) : fl :=
  let s := 2 ^ 63 <=? b in
  let ef := (b / 2 ^ 52) mod 2048 in
  let fr := b mod 2 ^ 52 in
  if ef =? 2047 then (if fr =? 0 then FInf s else FNaN)
  else if ef =? 0 then FFin s fr (-1074)
  else FFin s (2 ^ 52 + fr) (Z.of_N ef - 1075).

(* ---- BigUint::as_f64 (biguint.rs:122): limbs base 2^64, most significant
   first, res = res * 2^64 + limb, every step rounded ---- *)

Fixpoint limbs_be_fuel (fuel : nat) (n : N) (acc : list N) : list N :=
  match fuel with
  | O => acc
  | S f => if n =? 0 then acc else limbs_be_fuel f (n / 2 ^ 64) (n mod 2 ^ 64 :: acc)
  end.

Definition limbs_be (n : N) : list N :=
  limbs_be_fuel (S (N.to_nat (N.size n / 64))) n [].

Definition as_f64 (n : N) : fl :=
  fold_left (fun res l => fl_add (fl_scale64 res) (fl_of_N l)) (limbs_be n) fl_zero.

(* ---- BigRat::into_f64 (bigrat.rs:182) ---- *)

Definition q_num_abs (q : Q) : N := Z.abs_N (Qnum q).
Definition q_den (q : Q) : N := Npos (Qden q).
Definition q_neg (q : Q) : bool := (Qnum q <? 0)%Z.

Definition into_f64 (q : Q) : fl :=
  if (Qnum q =? 0)%Z then fl_zero else
  let r := Qred q in                                   (* simplify *)
  let p := fl_div (as_f64 (q_num_abs r)) (as_f64 (q_den r)) in
  if q_neg r then fl_neg p else p.

(* ---- BigRat::from_f64 (bigrat.rs:207, since fix commit d752faf) ----
   non-finite f                 -> Err ValueTooLarge   (EOther on the wire)
   negative = f < 0.0 (false for -0.0)
   |f| >= 2^64                  -> the integer mantissa * 2^exponent, exactly
   otherwise (the old path)     -> i = (|f| * 2^64) as u128;
        num = (i mod 2^64) + (i / 2^64) * (2^64 - 1);  den = 2^64 - 1.
   [from_f64_old] is the function before that commit (saturating cast for
   every input, NaN -> 0): kept as documentation of the repaired defect.   *)

Definition u128_max : N := 2 ^ 128 - 1.
Definition u64_max : N := 2 ^ 64 - 1.

Definition f64_to_u128_scaled (x : fl) : N :=
  match x with
  | FNaN => 0
  | FInf _ => u128_max
  | FFin _ m e =>
    let e' := (e + 64)%Z in
    let v := if (0 <=? e')%Z then m * 2 ^ Z.to_N e' else m / 2 ^ Z.to_N (- e') in
    N.min v u128_max
  end.

Definition fl_is_neg (x : fl) : bool :=
  match x with
  | FNaN => false
  | FInf s => s
  | FFin s m _ => s && negb (m =? 0)
  end.

Definition from_f64_parts_old (x : fl) : bool * N * N :=
  let i := f64_to_u128_scaled x in
  let part1 := i mod 2 ^ 64 in
  let part2 := i / 2 ^ 64 in
  (fl_is_neg x, part1 + part2 * u64_max, u64_max).

Definition mkQ (neg : bool) (n d : N) : Q :=
  match d with
  | N0 => 0%Q
  | Npos p => Qmake (if neg then (- Z.of_N n)%Z else Z.of_N n) p
  end.

Definition from_f64_old (x : fl) : Q :=
  let '(s, n, d) := from_f64_parts_old x in mkQ s n d.

(* magnitude 2^64 or more, infinite, or NaN: what the old cast could not take *)
Definition fl_saturates (x : fl) : bool :=
  match x with
  | FNaN => true
  | FInf _ => true
  | FFin _ m e => 2 ^ 64 <=? (if (0 <=? e)%Z then m * 2 ^ Z.to_N e else m / 2 ^ Z.to_N (- e))
  end.

Definition from_f64_parts (x : fl) : res (bool * N * N) :=
  match x with
  | FNaN | FInf _ => Err EOther                       (* FendError::ValueTooLarge *)
  | FFin s m e =>
    if fl_saturates x then
      (* an f64 of this size is an integer: exponent field - 1075 >= 12 *)
      if (0 <=? e)%Z then Ok (fl_is_neg x, m * 2 ^ Z.to_N e, 1)
      else Ok (fl_is_neg x, m, 2 ^ Z.to_N (- e))      (* not reached from a bit pattern *)
    else Ok (from_f64_parts_old x)
  end.

Definition from_f64 (x : fl) : res Q :=
  do p <- from_f64_parts x;
  let '(s, n, d) := p in Ok (mkQ s n d).

(* ---- the bridge: BigRat -> f64 -> libm -> f64 -> BigRat ---- *)

Definition oracle := N -> N.      (* libm: bit pattern -> bit pattern *)

Definition bridge (F : oracle) (q : Q) : res Q :=
  from_f64 (fl_of_bits (F (fl_bits (into_f64 q)))).

Definition bridge_old (F : oracle) (q : Q) : Q :=
  from_f64_old (fl_of_bits (F (fl_bits (into_f64 q)))).

(* ---- BigUint::log2 (biguint.rs:142) ---- *)

Definition biguint_log2 (Flog2 : oracle) (n : N) : fl :=
  let bits := N.size n in
  let int_log := fl_of_N (bits - 1) in
  let k := (bits + 1) - 1023 in                 (* truncated subtraction: shifts needed *)
  let frac := N.shiftr (2 * n) k in
  let dv := N.shiftr (2 ^ bits) k in
  let fractional_log := fl_of_bits (Flog2 (fl_bits (fl_div (as_f64 frac) (as_f64 dv)))) in
  fl_add int_log fractional_log.

(* the f64 inputs on which biguint_log2 consults libm (for the harness) *)
Definition biguint_log2_query (n : N) : N :=
  let bits := N.size n in
  let k := (bits + 1) - 1023 in
  fl_bits (fl_div (as_f64 (N.shiftr (2 * n) k)) (as_f64 (N.shiftr (2 ^ bits) k))).
