(* C15 -- non-rational powers: soundness of the integer bisection
   (BigUint::root_n) and the bracket kept by the 50 rational bisection steps
   (BigRat::iter_root_n).  No real numbers. *)
From FendV Require Import Base.Prelude Elem.Bridge Elem.Model.
From Coq Require Import QArith Qabs Lia.
Open Scope N_scope.

(* ------------------------------------------------------------------ *)
(* BigUint::root_n: whatever it returns is the floor of the root, and the
   exact flag says whether the root is exact *)

Lemma root_loop_sound : forall fuel x n low high r b,
  low ^ n < x -> x < high ^ n ->
  root_loop fuel x n low high = Ok (r, b) ->
  (b = true /\ r ^ n = x) \/ (b = false /\ r ^ n < x /\ x < (r + 1) ^ n).
Proof.
  induction fuel as [|f IH]; intros x n low high r b Hlo Hhi H; [discriminate|].
  cbn [root_loop] in H.
  set (g := (low + high) / 2) in *.
  destruct (N.compare_spec (g ^ n) x) as [Heq|Hlt|Hgt].
  - injection H as <- <-. left. split; [reflexivity|exact Heq].
  - destruct (N.leb_spec (high - g) 1) as [Hw|Hw].
    + injection H as <- <-. right. split; [reflexivity|]. split; [exact Hlt|].
      assert (Hgh : g < high).
      { destruct (N.lt_ge_cases g high) as [Hc|Hc]; [exact Hc|].
        exfalso. assert (high ^ n <= g ^ n) by (apply N.pow_le_mono_l; exact Hc). lia. }
      assert (g + 1 = high) by lia. rewrite H. exact Hhi.
    + apply (IH x n g high r b); assumption.
  - destruct (N.leb_spec (g - low) 1) as [Hw|Hw].
    + injection H as <- <-. right. split; [reflexivity|]. split; [exact Hlo|].
      assert (Hlg : low < g).
      { destruct (N.lt_ge_cases low g) as [Hc|Hc]; [exact Hc|].
        exfalso. assert (g ^ n <= low ^ n) by (apply N.pow_le_mono_l; exact Hc). lia. }
      assert (low + 1 = g) by lia. rewrite H. exact Hgt.
    + apply (IH x n low g r b); assumption.
Qed.

Lemma pow2_gt_size : forall x, x < 2 ^ N.size x.
Proof.
  intro x. destruct x as [|p]; [reflexivity|].
  apply N.size_gt.
Qed.

Theorem biguint_root_n_sound : forall x n r b,
  biguint_root_n x n = Ok (r, b) ->
  (b = true /\ (r ^ n = x \/ n = 1 \/ x <= 1)) \/ (b = false /\ r ^ n < x /\ x < (r + 1) ^ n).
Proof.
  intros x n r b. unfold biguint_root_n.
  destruct ((x =? 0) || (x =? 1) || (n =? 1))%bool eqn:Htriv.
  - intro H. injection H as <- <-. left. split; [reflexivity|].
    apply Bool.orb_true_iff in Htriv. destruct Htriv as [Htriv|Hn1].
    + apply Bool.orb_true_iff in Htriv. destruct Htriv as [H0|H1].
      * apply N.eqb_eq in H0. right. right. lia.
      * apply N.eqb_eq in H1. right. right. lia.
    + apply N.eqb_eq in Hn1. right. left. exact Hn1.
  - apply Bool.orb_false_iff in Htriv. destruct Htriv as [Htriv Hn1].
    apply Bool.orb_false_iff in Htriv. destruct Htriv as [Hx0 Hx1].
    apply N.eqb_neq in Hx0. apply N.eqb_neq in Hx1. apply N.eqb_neq in Hn1.
    destruct (usize_limit <=? n); [discriminate|].
    destruct (N.eqb_spec n 0) as [Hn0|Hn0]; [discriminate|].
    intro H.
    set (mb := N.size x / n + 1) in *.
    assert (Hlo : 1 ^ n < x) by (rewrite N.pow_1_l; lia).
    assert (Hhi : x < (2 ^ (mb + 1)) ^ n).
    { rewrite <- N.pow_mul_r.
      eapply N.lt_le_trans; [apply pow2_gt_size|].
      apply N.pow_le_mono_r; [discriminate|].
      unfold mb. pose proof (N.div_mod' (N.size x) n).
      pose proof (N.mod_lt (N.size x) n Hn0). nia. }
    destruct (root_loop_sound _ _ _ _ _ _ _ Hlo Hhi H) as [[Hb Hr]|Hr].
    + left. split; [exact Hb|]. left. exact Hr.
    + right. exact Hr.
Qed.

(* ------------------------------------------------------------------ *)
(* fuel sufficiency: the bisection always ends within the fuel the model
   gives it (the interval at least halves, rounding up, at every step) *)

Lemma root_loop_total : forall (f : nat) x n low high,
  high - low <= 2 ^ N.of_nat f ->
  exists r, root_loop (S f) x n low high = Ok r.
Proof.
  induction f as [|f IH]; intros x n low high Hw.
  - cbn [root_loop]. set (g := (low + high) / 2).
    assert (Hdm : low + high = 2 * g + (low + high) mod 2) by (unfold g; apply N.div_mod').
    assert (Hm : (low + high) mod 2 < 2) by (apply N.mod_lt; discriminate).
    set (md := (low + high) mod 2) in *. clearbody md. clearbody g.
    change (2 ^ N.of_nat 0) with 1 in Hw.
    destruct (g ^ n ?= x); [eexists; reflexivity| |].
    + destruct (N.leb_spec (high - g) 1) as [_|Hc]; [eexists; reflexivity|lia].
    + destruct (N.leb_spec (g - low) 1) as [_|Hc]; [eexists; reflexivity|lia].
  - remember (S f) as f1. cbn [root_loop]. subst f1. set (g := (low + high) / 2).
    assert (Hpow : 2 ^ N.of_nat (S f) = 2 * 2 ^ N.of_nat f).
    { rewrite Nat2N.inj_succ, N.pow_succ_r'. reflexivity. }
    rewrite Hpow in Hw.
    assert (Hdm : low + high = 2 * g + (low + high) mod 2).
    { unfold g. apply N.div_mod'. }
    assert (Hm : (low + high) mod 2 < 2) by (apply N.mod_lt; discriminate).
    set (md := (low + high) mod 2) in *. clearbody md. clearbody g.
    set (P := 2 ^ N.of_nat f) in *. clearbody P.
    destruct (g ^ n ?= x); [eexists; reflexivity| |].
    + destruct (N.leb_spec (high - g) 1) as [_|Hc]; [eexists; reflexivity|].
      apply IH. lia.
    + destruct (N.leb_spec (g - low) 1) as [_|Hc]; [eexists; reflexivity|].
      apply IH. lia.
Qed.

(* BigUint::root_n never runs out of the model's fuel: it returns a root, or
   one of the two guards (index >= 2^64: OutOfRange; index 0: the division by
   zero of biguint.rs:244) *)
Theorem biguint_root_n_total : forall x n,
  (exists r, biguint_root_n x n = Ok r) \/ biguint_root_n x n = Err EOutOfRange \/
  biguint_root_n x n = Panic 244.
Proof.
  intros x n. unfold biguint_root_n.
  destruct ((x =? 0) || (x =? 1) || (n =? 1))%bool; [left; eexists; reflexivity|].
  destruct (usize_limit <=? n); [right; left; reflexivity|].
  destruct (n =? 0); [right; right; reflexivity|].
  left. set (mb := N.size x / n + 1).
  assert (Hf : N.to_nat (mb + 4) = S (N.to_nat (mb + 3))) by lia.
  rewrite Hf. apply root_loop_total.
  rewrite N2Nat.id.
  assert (2 ^ (mb + 1) <= 2 ^ (mb + 3)) by (apply N.pow_le_mono_r; lia).
  lia.
Qed.

(* ------------------------------------------------------------------ *)
(* BigRat::iter_root_n: after k halvings the result is the midpoint of a
   bracket [lo, hi] of width (high - low) / 2^k that still contains the root *)

Fixpoint half_pow (k : nat) : Q :=
  match k with O => 1%Q | S k' => ((1 # 2) * half_pow k')%Q end.

Lemma qlt_true : forall a b, qlt a b = true -> (a < b)%Q.
Proof. intros a b. unfold qlt. rewrite Qlt_alt. destruct (a ?= b)%Q; congruence. Qed.

Lemma qlt_false : forall a b, qlt a b = false -> (b <= a)%Q.
Proof.
  intros a b. unfold qlt. rewrite Qle_alt. rewrite <- (Qcompare_antisym a b).
  destruct (a ?= b)%Q; simpl; congruence.
Qed.

Theorem iter_root_loop_bracket : forall k low high val n,
  (Qpower low (Z.of_N n) <= val)%Q -> (val <= Qpower high (Z.of_N n))%Q ->
  exists lo hi : Q,
    (Qpower lo (Z.of_N n) <= val)%Q /\ (val <= Qpower hi (Z.of_N n))%Q /\
    (hi - lo == (high - low) * half_pow k)%Q /\
    (iter_root_loop k low high val n == (lo + hi) / 2)%Q.
Proof.
  induction k as [|k IH]; intros low high val n Hlo Hhi.
  - exists low, high. repeat split; try assumption.
    + cbn [half_pow]. ring.
    + cbn [iter_root_loop]. apply Qred_correct.
  - cbn [iter_root_loop].
    set (g := Qred ((low + high) / 2)).
    assert (Hg : (g == (low + high) / 2)%Q) by apply Qred_correct.
    destruct (qlt (Qpower g (Z.of_N n)) val) eqn:Hc.
    + apply qlt_true in Hc.
      destruct (IH g high val n (Qlt_le_weak _ _ Hc) Hhi) as [lo [hi [H1 [H2 [H3 H4]]]]].
      exists lo, hi. repeat split; try assumption.
      rewrite H3, Hg. cbn [half_pow]. field.
    + apply qlt_false in Hc.
      destruct (IH low g val n Hlo Hc) as [lo [hi [H1 [H2 [H3 H4]]]]].
      exists lo, hi. repeat split; try assumption.
      rewrite H3, Hg. cbn [half_pow]. field.
Qed.

Lemma half_pow_50 : (half_pow 50 == 1 # 1125899906842624)%Q.
Proof. vm_compute. reflexivity. Qed.

(* the 50 steps of iter_root_n: the result is within 2^-51 of both ends of a
   bracket of width 2^-50 that contains the n-th root of val *)
Theorem iter_root_n_bracket : forall low val n,
  (Qpower low (Z.of_N n) <= val)%Q -> (val <= Qpower (low + 1) (Z.of_N n))%Q ->
  exists lo hi : Q,
    (Qpower lo (Z.of_N n) <= val)%Q /\ (val <= Qpower hi (Z.of_N n))%Q /\
    (hi - lo == 1 # 1125899906842624)%Q /\
    (iter_root_n low val n == (lo + hi) / 2)%Q.
Proof.
  intros low val n Hlo Hhi. unfold iter_root_n.
  destruct (iter_root_loop_bracket 50 low (low + 1) val n Hlo Hhi) as [lo [hi [H1 [H2 [H3 H4]]]]].
  exists lo, hi. repeat split; try assumption.
  rewrite H3, half_pow_50. ring.
Qed.
