(* Dispatcher for the Elem area (C15): executable entry points used by the
   correspondence check.  Rationals travel as  neg num den  (decimal atoms);
   libm answers travel as a table ((in_bits out_bits) ...) supplied by the
   implementation harness -- the model never computes a libm function. *)
From FendV Require Import Base.Prelude Elem.Bridge Elem.Model.
From Coq Require Import QArith.
Open Scope N_scope.

Definition as_rat (a b c : sx) : option Q :=
  match as_N a, as_N b, as_N c with
  | Some s, Some n, Some (Npos d) => Some (mkQ (negb (s =? 0)) n (Npos d))
  | _, _, _ => None
  end.

Definition as_real (p a b c : sx) : option real :=
  match as_N p, as_rat a b c with
  | Some k, Some q => Some (if k =? 0 then RSimple q else RPi q)
  | _, _ => None
  end.

Definition sx_rat (q : Q) : list sx :=
  [sx_bool (q_neg q); sx_N (q_num_abs q); sx_N (q_den q)].

Definition sx_exrat (r : res (Exact Q)) : sx :=
  match r with
  | Ok v => XL (XS (B"ok") :: sx_bool (exb v) :: sx_rat (exv v))
  | Err e => sx_err e
  | Panic k => sx_panic k
  end.

Definition sx_real (r : real) : list sx :=
  match r with
  | RSimple q => sx_N 0 :: sx_rat q
  | RPi q => sx_N 1 :: sx_rat q
  end.

Definition sx_exreal (r : res (Exact real)) : sx :=
  match r with
  | Ok v => XL (XS (B"ok") :: sx_bool (exb v) :: sx_real (exv v))
  | Err e => sx_err e
  | Panic k => sx_panic k
  end.

Definition fname_of (s : list N) : option fname :=
  if opeq s "sin" then Some Fsin else if opeq s "cos" then Some Fcos
  else if opeq s "asin" then Some Fasin else if opeq s "acos" then Some Facos
  else if opeq s "atan" then Some Fatan else if opeq s "sinh" then Some Fsinh
  else if opeq s "cosh" then Some Fcosh else if opeq s "tanh" then Some Ftanh
  else if opeq s "asinh" then Some Fasinh else if opeq s "acosh" then Some Facosh
  else if opeq s "atanh" then Some Fatanh else if opeq s "log2" then Some Flog2
  else if opeq s "ln" then Some Fln else if opeq s "log10" then Some Flog10
  else if opeq s "exp" then Some Fexp else None.

Definition unit_of (s : list N) : option angle_unit :=
  if opeq s "radian" then Some URadian else if opeq s "circle" then Some UCircle
  else if opeq s "degree" then Some UDegree else if opeq s "arcmin" then Some UArcmin
  else if opeq s "arcsec" then Some UArcsec else if opeq s "rightangle" then Some URightangle
  else if opeq s "gradian" then Some UGradian
  else if opeq s "quadrant" then Some UQuadrant else if opeq s "quintant" then Some UQuintant
  else if opeq s "sextant" then Some USextant else if opeq s "zodiacsign" then Some UZodiacSign
  else if opeq s "milliarcsec" then Some UMilliarcsec else None.

(* oracle table ((in out) ...); a missing entry answers 0 (the check
   supplies every entry the *-queries ops ask for) *)
Fixpoint as_table (l : list sx) : option (list (N * N)) :=
  match l with
  | [] => Some []
  | XL [a; b] :: r =>
    match as_N a, as_N b, as_table r with
    | Some x, Some y, Some t => Some ((x, y) :: t)
    | _, _, _ => None
    end
  | _ => None
  end.

Fixpoint lookup (t : list (N * N)) (k : N) : N :=
  match t with
  | [] => 0
  | (a, b) :: r => if a =? k then b else lookup r k
  end.

Definition table_oracles (t : list (N * N)) : oracles := fun _ => lookup t.

Definition run_elem : dispatcher := fun op args =>
  if opeq op "into-f64" then
    match args with
    | [a; b; c] => match as_rat a b c with
                   | Some q => Some (XL [XS (B"ok"); sx_N (fl_bits (into_f64 q))])
                   | None => Some sx_bad end
    | _ => Some sx_bad
    end
  else if opeq op "from-f64" then
    match args with
    | [a] => match as_N a with
             | Some b => Some (match from_f64_parts (fl_of_bits b) with
                               | Ok (s, n, d) => XL [XS (B"ok"); sx_bool s; sx_N n; sx_N d]
                               | Err e => sx_err e
                               | Panic k => sx_panic k
                               end)
             | None => Some sx_bad end
    | _ => Some sx_bad
    end
  else if opeq op "pi-model" then
    Some (sx_res (fun q => XL (sx_rat q)) pi_model_res)
  else if opeq op "e-model" then
    Some (XL (XS (B"ok") :: sx_rat e_model))
  else if opeq op "queries" then
    match args with
    | [XS f; p; a; b; c] =>
      match fname_of f, as_real p a b c with
      | Some fn, Some r => Some (XL [XS (B"ok"); sx_Ns (real_fn_queries fn r)])
      | _, _ => Some sx_bad end
    | _ => Some sx_bad
    end
  else if opeq op "rat-queries" then
    match args with
    | [XS f; a; b; c] =>
      match fname_of f, as_rat a b c with
      | Some fn, Some q => Some (XL [XS (B"ok"); sx_Ns (rat_fn_queries fn q)])
      | _, _ => Some sx_bad end
    | _ => Some sx_bad
    end
  else if opeq op "real-fn" then
    match args with
    | [XS f; p; a; b; c; XL t] =>
      match fname_of f, as_real p a b c, as_table t with
      | Some fn, Some r, Some tb => Some (sx_exreal (real_fn (table_oracles tb) fn r))
      | _, _, _ => Some sx_bad end
    | _ => Some sx_bad
    end
  else if opeq op "real-tan" then
    match args with
    | [p; a; b; c; XL t] =>
      match as_real p a b c, as_table t with
      | Some r, Some tb => Some (sx_exreal (real_tan (table_oracles tb) r))
      | _, _ => Some sx_bad end
    | _ => Some sx_bad
    end
  else if opeq op "tan-queries" then
    match args with
    | [p; a; b; c] =>
      match as_real p a b c with
      | Some r => Some (XL [XS (B"ok"); sx_Ns (real_fn_queries Fsin r ++ real_fn_queries Fcos r)])
      | None => Some sx_bad end
    | _ => Some sx_bad
    end
  else if opeq op "rat-fn" then
    match args with
    | [XS f; a; b; c; XL t] =>
      match fname_of f, as_rat a b c, as_table t with
      | Some fn, Some q, Some tb => Some (sx_exrat (rat_fn (table_oracles tb) fn q))
      | _, _, _ => Some sx_bad end
    | _ => Some sx_bad
    end
  else if opeq op "rat-pow" then
    match args with
    | [a; b; c; d; e; f] =>
      match as_rat a b c, as_rat d e f with
      | Some x, Some y => Some (sx_exrat (rat_pow x y))
      | _, _ => Some sx_bad end
    | _ => Some sx_bad
    end
  else if opeq op "real-pow" then
    match args with
    | [p; a; b; c; p2; d; e; f] =>
      match as_real p a b c, as_real p2 d e f with
      | Some x, Some y => Some (sx_exreal (real_pow x y))
      | _, _ => Some sx_bad end
    | _ => Some sx_bad
    end
  else if opeq op "angle" then
    match args with
    | [XS u; a; b; c] =>
      match unit_of u, as_rat a b c with
      | Some un, Some q => Some (XL (XS (B"ok") :: sx_real (angle_to_rad un q)))
      | _, _ => Some sx_bad end
    | _ => Some sx_bad
    end
  else if opeq op "known-saturates" then
    match args with
    | [a] => match as_N a with
             | Some b => Some (sx_bool (known_bridge_saturates b))
             | None => Some sx_bad end
    | _ => Some sx_bad
    end
  else if opeq op "known-overflow" then
    match args with
    | [a; b; c] => match as_rat a b c with
                   | Some q => Some (sx_bool (known_into_f64_overflow q))
                   | None => Some sx_bad end
    | _ => Some sx_bad
    end
  else if opeq op "known-bigpi" then
    match args with
    | [a; b; c] => match as_rat a b c with
                   | Some q => Some (sx_bool (known_big_pi_multiple q))
                   | None => Some sx_bad end
    | _ => Some sx_bad
    end
  else if opeq op "known-illcond" then
    match args with
    | [XS f; a; b; c] =>
      match fname_of f, as_rat a b c with
      | Some fn, Some q => Some (sx_bool (known_ill_conditioned fn q))
      | _, _ => Some sx_bad end
    | _ => Some sx_bad
    end
  else if opeq op "known-tanpole" then
    match args with
    | [a; b; c] => match as_rat a b c with
                   | Some q => Some (sx_bool (known_tan_near_pole q))
                   | None => Some sx_bad end
    | _ => Some sx_bad
    end
  else None.

Definition run_elem_line : list N -> list N := run_with run_elem.
