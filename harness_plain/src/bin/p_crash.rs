#[path = "../../../harness/src/lib.rs"]
#[allow(dead_code)]
mod fharness;
include!("../../../harness/src/bin/h_crash.rs");
